#!/usr/bin/env python3
# Assembles DESIGN.md = DESIGN.head.md + section 6 (per property, from mkmanifest's table) + section 7 (findings, from
# known_findings.txt) + section 8 (seeded changes, from seeded/*/meta.json and seeded/RESULTS.txt) + DESIGN.tail.md
import json, re, os, glob
os.chdir(os.path.dirname(os.path.abspath(__file__)))
g = {}
src = open('mkmanifest.py').read()
exec(src[:src.index('not_applicable = {}')], g)
table = [v for v in g.values() if isinstance(v, dict) and 'C01' in v][0]
props = {json.loads(l)['id']: json.loads(l) for l in open('properties.jsonl')}
out = [open('DESIGN.head.md').read().rstrip(), '\n\n---------------------------------------------------------------------------\n',
       '## 6. Per property: what is proved, under which assumptions, what is not decided\n',
       'Generated from the table in `mkmanifest.py` (the same text is in `MANIFEST.json`). "Proved" means: every obligation\n'
       'generated from the current source is discharged on every run; the functions are those tagged `property Cxx` in the\n'
       'contract files (listed per run in `evidence/Cxx.json: coverage.functions_under_contract`).\n']
for pid in sorted(table):
    ev = {}
    try:
        ev = json.load(open('evidence/%s.json' % pid))['coverage']
    except Exception:
        pass
    out.append('### %s — %s\n' % (pid, props[pid]['title']))
    out.append('*Proved.* ' + table[pid]['text'] + '\n')
    out.append('*Assumptions, scope, not decided.* ' + table[pid]['note'] + '\n')
    if ev:
        out.append('*Last run:* %s units under contract, %s obligations, %s discharged, bounded %s.\n' % (
            len(ev.get('functions_under_contract', [])), ev.get('obligations'), ev.get('discharged'), ev.get('bounded')))
out.append('\n---------------------------------------------------------------------------\n')
out.append('## 7. Findings: defects exposed by failing obligations on the (then) unchanged tree\n')
out.append('Each was first a failed obligation, then reproduced on the real code by a replay driver (`/verif/replay/*_test.go`,\n'
           'injected with `go test -overlay`), then repaired by a minimal unguarded `fix:` commit in `/repo` (the repository\'s test\n'
           'suite passes with all of them), or — two cases, four obligations, C19 — recorded as a known finding. After each repair the same obligation is\n'
           'discharged, and the reverted fix is part of the must-fail corpus (3.8). Text below is `known_findings.txt`.\n')
for l in open('known_findings.txt'):
    l = l.strip()
    if l.startswith('fixed:') or l.startswith('finding:'):
        kind, rest = l.split(':', 1)
        m = re.match(r'\s*property=(C\d+)\s+(?:(\w+)\s+)?obligation=(\S+)\s+::\s+(.*)', rest)
        if m:
            pid, commit, obl, text = m.groups()
            tag = 'fixed in /repo commit `%s`' % commit if kind == 'fixed' else '**known finding, not repaired**'
            out.append('* **%s** (%s) — obligation `%s`: %s\n' % (pid, tag, obl, text))
        else:
            out.append('* ' + l + '\n')
out.append(open('DESIGN.tail.md').read().split('\n---------------------------------------------------------------------------\n')[0])
out.append('\n---------------------------------------------------------------------------\n')
out.append('## 8. Seeded changes (independent sub-agents) and which checks catch them\n')
out.append('Twenty fresh sub-agents were each given only the text of one property and a scratch worktree, and asked for a change\n'
           'that breaks it while compiling and passing the existing tests, with a demonstration. Each was confirmed by me in a\n'
           'scratch worktree (demonstration fails with the patch, passes without it, `go test ./...` passes with it) and archived\n'
           'in `seeded/<id>/` (`patch.diff`, the demonstration test, `meta.json`). Three patches no longer apply after fixes to\n'
           'the same lines and have a `patch.rebased.diff` (same change on the fixed tree, re-confirmed). `./seedall.sh` applies\n'
           'each to a scratch copy and runs the property\'s check; result of the last run (`seeded/RESULTS.txt`):\n')
res = {}
if os.path.exists('seeded/RESULTS.txt'):
    for l in open('seeded/RESULTS.txt'):
        p = l.split()
        if p:
            res[p[0]] = l.strip()
out.append('| seed | what the change does (agent\'s summary, shortened) | first failing obligation |\n|---|---|---|\n')
for d in sorted(glob.glob('seeded/C*')):
    pid = os.path.basename(d)
    try:
        meta = json.load(open(d + '/meta.json'))
    except Exception:
        continue
    br = re.sub(r'\s+', ' ', meta.get('breaks', ''))[:330].replace('|', '/')
    r = res.get(pid, '')
    m = re.search(r'first=(\S+)', r)
    first = ('`' + m.group(1) + '`') if m else r
    if 'MISSED' in r:
        first = '**missed**'
    out.append('| %s | %s… | %s |\n' % (pid, br, first))
out.append('\nAll twenty are detected. C18\'s and C20\'s seeds are liveness/timing defects (a stall timer raised for buffered\n'
           'responses; an unbounded wait on a pipe that is never drained): they are caught only through mechanism-level\n'
           'contracts (the value of the stall timer; "drain the pipe before waiting for its writer"), not because timing is\n'
           'decided. C10\'s seed is caught because it introduces an uncontracted helper and breaks the callee\'s precondition —\n'
           'a correct variant of the same optimisation would need a contract too (contract-based verification flags\n'
           'unspecified new code; that is by design). Several detections are time-outs without a model\n'
           '(`no-failing-input-found`): the obligation that passed on the unchanged tree no longer discharges.\n')
if os.path.exists('mutants/RESULTS.txt'):
    out.append('\n### Hand-written and reverted-fix changes (must-fail corpus) and the obligation that catches each\n')
    out.append('From the last thorough run (`mutants/RESULTS.txt`; the file name gives the property whose check must catch it):\n')
    out.append('| change | violations | first failing obligation |\n|---|---|---|\n')
    for l in sorted(open('mutants/RESULTS.txt')):
        p = l.split()
        if len(p) >= 3 and p[0].startswith('mutants/'):
            out.append('| `%s` | %s | `%s` |\n' % (p[0][8:-5], p[1], p[2].replace('first=', '')))
tail = open('DESIGN.tail.md').read().split('\n---------------------------------------------------------------------------\n')
out.append('\n---------------------------------------------------------------------------\n' + '\n---------------------------------------------------------------------------\n'.join(tail[1:]))
open('DESIGN.md', 'w').write('\n'.join(out))
print('DESIGN.md written:', sum(len(x) for x in out), 'bytes')
