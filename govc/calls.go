package main

// Calls: builtins, conversions, library models, contract application, closure inlining.

import (
	"sort"
	"strconv"
	"fmt"
	"golang.org/x/tools/go/packages"
	"go/ast"
	"go/token"
	"go/types"
	"regexp"
	"strings"
)

var typeArgRe = regexp.MustCompile(`\[[^\]]*\]`)

func fullName(f *types.Func) string {
	return typeArgRe.ReplaceAllString(f.Origin().FullName(), "")
}

// calleeOf resolves the static callee, if any.
func (u *Unit) calleeOf(x *ast.CallExpr) (fn *types.Func, recvExpr ast.Expr, fvar *types.Var) {
	fun := ast.Unparen(x.Fun)
	if ix, ok := fun.(*ast.IndexExpr); ok {
		fun = ix.X
	}
	if ix, ok := fun.(*ast.IndexListExpr); ok {
		fun = ix.X
	}
	switch f := fun.(type) {
	case *ast.Ident:
		switch o := u.info.Uses[f].(type) {
		case *types.Func:
			return o, nil, nil
		case *types.Var:
			return nil, nil, o
		}
	case *ast.SelectorExpr:
		if sel, ok := u.info.Selections[f]; ok {
			switch sel.Kind() {
			case types.MethodVal:
				return sel.Obj().(*types.Func), f.X, nil
			case types.FieldVal:
				if v, ok := sel.Obj().(*types.Var); ok {
					return nil, f.X, v
				}
			}
			return nil, nil, nil
		}
		switch o := u.info.Uses[f.Sel].(type) {
		case *types.Func:
			return o, nil, nil
		case *types.Var:
			return nil, nil, o
		}
	}
	return nil, nil, nil
}

func (u *Unit) call(st *State, x *ast.CallExpr) *Val {
	// conversion
	if tv, ok := u.info.Types[x.Fun]; ok && tv.IsType() {
		if len(x.Args) == 1 {
			return u.convert(st, u.eval(st, x.Args[0]), tv.Type, x)
		}
	}
	if id, ok := ast.Unparen(x.Fun).(*ast.Ident); ok {
		if _, isB := u.info.Uses[id].(*types.Builtin); isB {
			return u.builtin(st, id.Name, x)
		}
	}
	fn, recvExpr, fvar := u.calleeOf(x)
	resT := u.typeOf(x)
	u.callAsserts(st, x)
	var recv *Val
	if recvExpr != nil && fn != nil {
		if se, ok := ast.Unparen(x.Fun).(*ast.SelectorExpr); ok {
			if sel, ok := u.info.Selections[se]; ok && sel.Kind() == types.MethodVal && len(sel.Index()) > 1 {
				// method promoted from an embedded field: the receiver is that embedded object
				base := u.eval(st, recvExpr)
				recv = u.selectPath(st, base, sel.Index()[:len(sel.Index())-1], se)
				recvExpr = nil
			}
		}
	}
	if recvExpr != nil && fn != nil {
		_, _, isXMap := xsyncMapTypes(u.typeOf(recvExpr))
		if k := kindOf(u.typeOf(recvExpr)); k == kAtomic || isXMap || namedPath(types.Unalias(u.typeOf(recvExpr))) == "sync/atomic.Bool" {
			u.inAtomic++
			recv = u.eval(st, recvExpr)
			u.inAtomic--
		} else {
			recv = u.eval(st, recvExpr)
		}
	}
	// pointer-receiver method called on a struct-valued field (x.f.M() with f a struct): the callee gets an
	// interior pointer. The field's value is copied to that address for the call and copied back afterwards.
	var syncBack func()
	_, hasModel := models[func() string {
		if fn != nil {
			return fullName(fn)
		}
		return ""
	}()]
	if fn != nil && !hasModel && recv != nil && recvExpr != nil && kindOf(recv.T) == kStruct {
		if sig := fn.Type().(*types.Signature); sig.Recv() != nil {
			if _, ptrRecv := types.Unalias(sig.Recv().Type()).(*types.Pointer); ptrRecv {
				if id, ok := ast.Unparen(recvExpr).(*ast.Ident); ok {
					// x.M() with x a local struct and M on *T: the call takes &x, so x lives in the heap from here on
					if obj, isVar := u.info.Uses[id].(*types.Var); isVar && !(obj.Pkg() != nil && obj.Parent() == obj.Pkg().Scope()) {
						pt := types.NewPointer(recv.T)
						r, esc := st.escaped[obj]
						if !esc {
							r = u.alloc(st)
							u.storeStruct(st, r, pt, recv)
							if st.escaped == nil {
								st.escaped = map[types.Object]string{}
							}
							st.escaped[obj] = r
						}
						recv = &Val{T: pt, S: r}
					}
				}
				if se, ok := ast.Unparen(recvExpr).(*ast.SelectorExpr); ok {
					pt := types.NewPointer(recv.T)
					inner := u.d.fun("interior!"+typeKey(recv.T), []string{SInt}, SInt)
					baseV := u.eval(st, se.X)
					ref := app(inner, u.scalar(st, baseV))
					// interior addresses live below zero: they are never confused with allocated objects and are
					// outside the caller-visible frame
					st.assumeFact(app("<", ref, "0"))
					u.storeStruct(st, ref, pt, recv)
					recv = &Val{T: pt, S: ref}
					lhs := recvExpr
					syncBack = func() { u.assign(st, lhs, u.loadStruct(st, ref, pt)) }
					u.trusted["interior pointers to struct-valued fields are modelled by copy-in/copy-out around the call"] = true
				}
			}
		}
	}
	if syncBack != nil {
		defer syncBack()
	}
	if fn != nil && recv != nil && recvExpr != nil && u.safety && isIface(recv.T) && u.quiet == 0 {
		// a method call through a nil interface value panics
		if sig, ok := fn.Type().(*types.Signature); ok && sig.Recv() != nil && isIface(sig.Recv().Type()) {
			pkgVar := false
			if id, isId := ast.Unparen(recvExpr).(*ast.Ident); isId {
				if obj, isVar := u.info.Uses[id].(*types.Var); isVar && obj.Pkg() != nil && obj.Parent() == obj.Pkg().Scope() {
					pkgVar = true
					u.trusted["package-level interface variables are non-nil where a method is called on them (set at package initialisation; reassignment not checked): "+obj.Pkg().Name()+"."+obj.Name()] = true
				}
			}
			if !pkgVar {
				u.safetyObl(st, "nilcall", x, app("distinct", recv.S, "0"))
			}
		}
	}
	if fn != nil {
		name := fullName(fn)
		if m, ok := models[name]; ok {
			if u.functional && !deterministicModel(name) {
				u.nonFunctional(st, "calls "+name)
			}
			return m(u, st, x, recv, fn)
		}
		key := funcKey(fn)
		if ct := u.eng.lookupContract(key, fn); ct != nil {
			u.callerHoldsLock(st, ct, x, recv)
			args := u.evalArgs(st, x, fn.Type().(*types.Signature))
			if ct.Flags["functional"] == "" {
				u.nonFunctional(st, "calls "+name+" (not functional)")
			}
			return u.applyContract(st, ct, fn.Type().(*types.Signature), recv, args, x, calleeShortName(x))
		}
		if u.isPure(fn) {
			pargs := u.evalArgs(st, x, fn.Type().(*types.Signature))
			if v := u.pureFunctional(st, fn, recv, pargs, resT); v != nil {
				return v
			}
			u.nonFunctional(st, "calls "+name+" (result not a function of its arguments)")
			return u.pureResult(st, fn, resT, x)
		}
		args := u.evalArgs(st, x, fn.Type().(*types.Signature))
		_ = args
		u.nonFunctional(st, "calls "+name)
		u.note("call without contract havocs the heap: " + name)
		u.havocAllHeap(st, "call "+name)
		return u.callResult(st, resT, calleeShortName(x))
	}
	// function value
	u.nonFunctional(st, "calls a function value")
	var fv *Val
	if fvar != nil {
		fv = u.eval(st, x.Fun)
	} else {
		fv = u.eval(st, x.Fun)
	}
	sig, _ := types.Unalias(u.typeOf(x.Fun)).Underlying().(*types.Signature)
	var args []*Val
	if sig != nil {
		args = u.evalArgs(st, x, sig)
	}
	// `pureparam p`: a function-typed parameter whose calls are side-effect free and whose result is a function of the
	// function value and the arguments for the duration of this call: fnapp(value, args)
	if id, ok := ast.Unparen(x.Fun).(*ast.Ident); ok && u.ct != nil && sig != nil && sig.Results().Len() == 1 {
		for _, pn := range strings.Fields(u.ct.Flags["pureparam"]) {
			if pn == id.Name {
				if _, isParam := u.info.Uses[id].(*types.Var); isParam {
					u.trusted["pureparam: calls of parameter "+id.Name+" of "+u.name+" have no side effects and return fnapp(value, args) (callers pass literals verified `pureresult`; that nothing the literal reads changes during the call is not checked)"] = true
					return u.fnappVal(st, fv, args, sig.Results().At(0).Type())
				}
			}
		}
	}
	// functype contract by the named type of the function value
	if ft := u.funcTypeName(x.Fun); ft == "context.CancelFunc" {
		u.trusted["pure: context.CancelFunc values"] = true
		return u.callResult(st, resT, "cancel")
	}
	if ft := u.funcTypeName(x.Fun); ft != "" {
		if ct, ok := u.eng.cs.Funcs[ft]; ok && ct.Kind == "functype" {
			u.usedContracts[ft] = true
			return u.applyContract(st, ct, sig, nil, args, x, shortPkg(ft))
		}
	}
	_ = fv
	u.note("call of function value without functype contract havocs the heap: " + exprString(x.Fun))
	u.havocAllHeap(st, "call of function value "+exprString(x.Fun))
	return u.callResult(st, resT, "fv")
}

// callerHoldsLock: a callee documented `requires-lock` ("caller holds the lock") touches guarded fields without taking
// the lock itself, so every call site must hold, in write mode, each mutex that guards fields of the receiver's type
// (`requires-lock r`: read mode suffices). A caller that is itself `requires-lock` passes the duty on to its callers.
func (u *Unit) callerHoldsLock(st *State, ct *Contract, x *ast.CallExpr, recv *Val) {
	mode := ct.Flags["requires-lock"]
	if mode == "" || recv == nil || u.quiet > 0 {
		return
	}
	if u.ct != nil && (u.ct.Flags["requires-lock"] != "" || u.ct.Flags["constructor"] != "") {
		return
	}
	sel, ok := ast.Unparen(x.Fun).(*ast.SelectorExpr)
	if !ok {
		return
	}
	ts := u.typeSpecOf(recv.T)
	if ts == nil {
		return
	}
	base := exprString(sel.X)
	var mus []string
	for mu := range ts.Guarded {
		mus = append(mus, mu)
	}
	sort.Strings(mus)
	for _, mu := range mus {
		held := st.held[base+"."+mu]
		ok := held == "w" || (mode == "r" && held == "r")
		goal := "false"
		if ok {
			goal = "true"
		}
		u.oblige(st, fmt.Sprintf("guarded.call.%s@expr.%d", sel.Sel.Name, u.posRank(x.Pos())), "guarded", fmt.Sprintf("call of %s.%s (requires-lock) with %s.%s held", base, sel.Sel.Name, base, mu), goal, false)
	}
}

// litContract: the contract block of a function literal directly nested in this unit's body (key <unit>$<n>).
func (u *Unit) litContract(x *ast.FuncLit) *Contract {
	if u.body == nil {
		return nil
	}
	n, found := 0, 0
	ast.Inspect(u.body, func(nd ast.Node) bool {
		if found != 0 {
			return false
		}
		if fl, ok := nd.(*ast.FuncLit); ok {
			n++
			if fl == x {
				found = n
			}
			return false
		}
		return true
	})
	if found == 0 {
		return nil
	}
	return u.eng.cs.Funcs[u.key+"$"+strconv.Itoa(found)]
}

// assumePureResult: a literal whose contract is flagged `pureresult` and (separately verified) ensures `res == E`:
// where the closure value cv is created, fnapp(cv, params) == E(params) for all parameter values, E read in the state
// of creation.
func (u *Unit) assumePureResult(st *State, x *ast.FuncLit, cv *Val) {
	ct := u.litContract(x)
	if ct == nil || ct.Flags["pureresult"] == "" {
		return
	}
	u.usedContracts[ct.Pkg+"."+ct.Key] = true
	var qv []QVar
	call := []*SExpr{{Op: "id", Name: "fnapp"}, {Op: "id", Name: "closure$"}}
	for _, f := range x.Type.Params.List {
		for _, nm := range f.Names {
			qv = append(qv, QVar{Name: nm.Name, Type: strings.ReplaceAll(types.TypeString(u.typeOf(f.Type), func(p *types.Package) string { return p.Name() }), "interface {}", "interface{}")})
			call = append(call, &SExpr{Op: "id", Name: nm.Name})
		}
	}
	env := u.specEnvLocal(st, x.Body.Lbrace, 0)
	env.what = u.name + " pureresult of literal"
	env.names["closure$"] = cv
	for _, en := range ct.Ensures {
		e := en.E
		if e.Op != "bin" || e.Name != "==" || e.Args[0].Op != "id" || (e.Args[0].Name != "res" && e.Args[0].Name != "res0") {
			continue
		}
		fa := &SExpr{Op: "forall", QVars: qv, Args: []*SExpr{{Op: "bin", Name: "==", Args: []*SExpr{{Op: "call", Args: call}, e.Args[1]}}}}
		g, _ := u.evalSpecBool(st, fa, env, true)
		st.assumeFact(g)
		u.trusted["pureresult: fnapp("+ct.Key+", args) is the literal's verified result expression, read in the state in which the literal is created"] = true
	}
}

// fnappVal: the uninterpreted application fnapp!<sorts>(f, args...) of a function value.
func (u *Unit) fnappVal(st *State, f *Val, args []*Val, resT types.Type) *Val {
	sorts := []string{SInt}
	terms := []string{f.S}
	for _, a := range args {
		if isIface(a.T) || kindOf(a.T) == kRef {
			sorts = append(sorts, SInt)
			terms = append(terms, a.S)
		} else {
			sorts = append(sorts, sortOf(a.T))
			terms = append(terms, u.scalar(st, a))
		}
	}
	name := "fnapp"
	for _, s := range sorts[1:] {
		name += "!" + sanitizeSort(s)
	}
	name += "!" + sanitizeSort(sortOf(resT))
	fn := u.d.fun(name, sorts, sortOf(resT))
	return u.fromScalar(st, app(fn, terms...), resT)
}

func sanitizeSort(s string) string {
	return strings.NewReplacer(" ", "_", "(", "", ")", "").Replace(s)
}

// funcTypeName finds the named func type of an expression (e.g. core.ProxyFunc), as contract key.
func (u *Unit) funcTypeName(e ast.Expr) string {
	t := types.Unalias(u.typeOf(e))
	if n, ok := t.(*types.Named); ok && n.Obj().Pkg() != nil {
		return n.Obj().Pkg().Path() + "." + n.Obj().Name()
	}
	return ""
}

func (e *Engine) lookupContract(key string, fn *types.Func) *Contract {
	if ct, ok := e.cs.Funcs[key]; ok {
		return ct
	}
	// extern contracts are keyed by FullName
	if fn != nil {
		if ct, ok := e.cs.Funcs[fullName(fn)]; ok {
			return ct
		}
	}
	return nil
}

func (u *Unit) callResult(st *State, t types.Type, hint string) *Val {
	if t == nil {
		return &Val{}
	}
	if tp, ok := t.(*types.Tuple); ok {
		if tp.Len() == 0 {
			return &Val{T: t}
		}
		v := &Val{T: t}
		for i := 0; i < tp.Len(); i++ {
			e := u.freshVal(st, tp.At(i).Type(), fmt.Sprintf("%s.r%d", hint, i))
			if kindOf(tp.At(i).Type()) == kRef {
				st.assumeFact(app("<=", e.S, st.wm))
			}
			v.Tuple = append(v.Tuple, e)
		}
		return v
	}
	v := u.freshVal(st, t, hint+".r")
	if kindOf(t) == kRef {
		st.assumeFact(app("<=", v.S, st.wm))
	}
	return v
}

func (u *Unit) evalArgs(st *State, x *ast.CallExpr, sig *types.Signature) []*Val {
	var args []*Val
	if len(x.Args) == 1 && sig.Params().Len() > 1 {
		// f(g()) tuple forwarding
		v := u.eval(st, x.Args[0])
		return v.Tuple
	}
	np := sig.Params().Len()
	for i, a := range x.Args {
		v := u.eval(st, a)
		var pt types.Type
		if sig.Variadic() && i >= np-1 {
			if x.Ellipsis.IsValid() {
				pt = sig.Params().At(np - 1).Type()
			} else {
				pt = sig.Params().At(np - 1).Type().(*types.Slice).Elem()
			}
		} else if i < np {
			pt = sig.Params().At(i).Type()
		}
		args = append(args, u.convertForAssign(st, v, pt))
	}
	if sig.Variadic() && !x.Ellipsis.IsValid() {
		// pack the variadic tail into a slice value
		fixed := np - 1
		if len(args) >= fixed {
			tail := args[fixed:]
			st0 := u.zeroVal(st, sig.Params().At(np-1).Type())
			arr := st0.Arr
			for i, a := range tail {
				arr = app("store", arr, intLit(int64(i)), u.scalar(st, a))
			}
			packed := &Val{T: sig.Params().At(np - 1).Type(), Arr: arr, Len: intLit(int64(len(tail))), Nil: "false"}
			if len(tail) == 0 {
				packed.Nil = "true"
			}
			args = append(append([]*Val{}, args[:fixed]...), packed)
		}
	}
	return args
}

var purePrefixes = []string{
	"fmt.", "errors.New", "strconv.", "strings.", "log/slog.", "(*log/slog.Logger).", "log.", "unicode.", "unicode/utf8.", "math.", "bytes.", "path.", "path/filepath.", "net/url.", "(*net/url.URL).", "(net/url.Values).",
	"github.com/thushan/olla/internal/logger.", "(github.com/thushan/olla/internal/logger.StyledLogger).", "(*github.com/thushan/olla/internal/logger.",
	"time.Duration.", "(time.Duration).", "(time.Time).", "time.", "context.", "(context.Context).", "sort.", "slices.", "maps.", "errors.", "net.", "(net.Error).", "(*net.OpError).",
	"(error).", "net/http.StatusText", "net/http.NewRequestWithContext", "net/http.NewRequest", "(io.Closer).Close", "(io.ReadCloser).Close", "(*strings.Builder).", "regexp.", "(*regexp.Regexp).", "os.Getenv", "encoding/json.Marshal", "encoding/json.Valid",
	"(*github.com/thushan/olla/internal/adapter/stats.", "github.com/thushan/olla/internal/util.", "github.com/thushan/olla/internal/version.", "(reflect.", "reflect.",
	"(*github.com/json-iterator/go.", "github.com/json-iterator/go.", "github.com/tidwall/gjson.", "(github.com/tidwall/gjson.Result).",
	"(*sync.WaitGroup).", "(*sync.Pool).", "(*sync.Map).", "(*io.PipeReader).", "(*io.PipeWriter).", "encoding/json.NewDecoder", "(*encoding/json.Decoder).", "encoding/json.Marshal", "bufio.", "(*bufio.Scanner).", "(*bufio.Reader).", "net/http.NewResponseController", "(*net/http.Request).Context", "(*net/http.Request).WithContext", "(*net/http.Request).UserAgent", "github.com/thushan/olla/internal/app/middleware.GetLogger", "github.com/thushan/olla/internal/app/middleware.GetRequestID", "github.com/thushan/olla/internal/app/middleware.FormatBytes", "(*github.com/thushan/olla/pkg/pool.Pool).", "(*golang.org/x/time/rate.Reservation).OK", "(*golang.org/x/time/rate.Reservation).Delay", "golang.org/x/time/rate.NewLimiter", "runtime.", "(*time.Timer).", "(*time.Ticker).", "io.", "(*bytes.Buffer).", "(*bytes.Reader).",
}

func (u *Unit) isPure(fn *types.Func) bool {
	n := fullName(fn)
	if sig, ok := fn.Type().(*types.Signature); ok && sig.Recv() != nil && sig.Params().Len() == 0 && sig.Results().Len() == 1 {
		if (fn.Name() == "Error" && kindOf(sig.Results().At(0).Type()) == kString) || fn.Name() == "Unwrap" {
			u.trusted["pure: Error()/Unwrap() methods of error types"] = true
			return true
		}
	}
	for _, p := range purePrefixes {
		if strings.HasPrefix(n, p) {
			u.trusted["pure: "+p+"*"] = true
			return true
		}
	}
	return false
}

// deterministicModel: library models whose result is determined by the argument values.
func deterministicModel(name string) bool {
	for _, p := range []string{"strings.", "strconv.", "unicode.", "unicode/utf8.", "path.", "fmt.Sprintf", "math."} {
		if strings.HasPrefix(name, p) {
			return true
		}
	}
	return false
}

var functionalPrefixes = []string{"net.SplitHostPort", "(*golang.org/x/time/rate.Reservation).OK", "(*golang.org/x/time/rate.Reservation).Delay", "(*net/url.URL).String", "strings.", "strconv.", "(net.Error).", "(error).Error", "unicode.", "math.", "path.", "net/http.StatusText", "net/url.PathUnescape", "net/url.QueryUnescape", "(time.Duration).", "path/filepath."}

// pureFunctional: deterministic library functions become uninterpreted functions of their scalar arguments.
func (u *Unit) pureFunctional(st *State, fn *types.Func, recv *Val, args []*Val, resT types.Type) *Val {
	n := fullName(fn)
	okp := false
	for _, p := range functionalPrefixes {
		if strings.HasPrefix(n, p) {
			okp = true
		}
	}
	if !okp {
		return nil
	}
	tp, _ := resT.(*types.Tuple)
	var rts []types.Type
	if tp != nil {
		for i := 0; i < tp.Len(); i++ {
			rts = append(rts, tp.At(i).Type())
		}
	} else if resT != nil {
		rts = []types.Type{resT}
	}
	var sorts, terms []string
	if recv != nil {
		sorts = append(sorts, sortOf(recv.T))
		terms = append(terms, u.scalar(st, recv))
	}
	for _, a := range args {
		k := kindOf(a.T)
		if k == kSlice || k == kStruct || k == kTuple || k == kArray {
			return nil
		}
		sorts = append(sorts, sortOf(a.T))
		terms = append(terms, u.scalar(st, a))
	}
	var outs []*Val
	for i, rt := range rts {
		k := kindOf(rt)
		if k == kSlice || k == kStruct || k == kTuple || k == kArray {
			return nil
		}
		f := u.d.fun(fmt.Sprintf("pure!%s!%d", n, i), sorts, sortOf(rt))
		var t string
		if len(terms) == 0 {
			t = f
		} else {
			t = app(f, terms...)
		}
		outs = append(outs, u.fromScalar(st, t, rt))
	}
	u.trusted["pure+functional: "+n] = true
	if len(outs) == 1 && tp == nil {
		return outs[0]
	}
	if len(outs) == 1 && tp != nil && tp.Len() == 1 {
		return outs[0]
	}
	return &Val{T: resT, Tuple: outs}
}

func (u *Unit) pureResult(st *State, fn *types.Func, resT types.Type, x *ast.CallExpr) *Val {
	v := u.callResult(st, resT, fn.Name())
	n := fullName(fn)
	// documented never-nil results of the standard library
	switch n {
	case "(*net/http.Request).Context", "context.Background", "context.TODO", "context.WithCancel", "context.WithTimeout", "context.WithDeadline", "context.WithValue", "context.WithoutCancel", "(*net/http.Request).WithContext":
		u.trusted["std-lib: context constructors and (*http.Request).Context/WithContext never return nil"] = true
		if len(v.Tuple) > 0 {
			st.assumeFact(app("distinct", v.Tuple[0].S, "0"))
		} else if v.S != "" {
			st.assumeFact(app("distinct", v.S, "0"))
		}
	}
	// constructors of errors never return nil
	if n == "fmt.Errorf-unmodelled" {
		st.assumeFact(app("distinct", v.S, "0"))
		// a fresh error value: distinct from everything allocated so far
		st.assumeFact(app(">", v.S, st.wm))
		st.wm = v.S
	}
	return v
}

// ---------------------------------------------------------------------------
// conversions and builtins

func (u *Unit) convert(st *State, v *Val, to types.Type, at ast.Node) *Val {
	kf, kt := kindOf(v.T), kindOf(to)
	if b, ok := v.T.(*types.Basic); ok && b.Kind() == types.UntypedNil {
		if kt == kSlice {
			return u.zeroVal(st, to)
		}
		return &Val{T: to, S: "0"}
	}
	switch {
	case isIface(to):
		return u.convertForAssign(st, v, to)
	case (kf == kInt || kf == kUint || kf == kTime || kf == kAtomic) && (kt == kInt || kt == kUint):
		lo, hi, ok := intRange(to)
		if !ok {
			return &Val{T: to, S: v.S}
		}
		flo, fhi, fok := intRange(v.T)
		if fok && rangeWithin(flo, fhi, lo, hi) {
			return &Val{T: to, S: v.S}
		}
		if isLitTerm(v.S) {
			return &Val{T: to, S: v.S}
		}
		// possibly narrowing: equal when in range, arbitrary (wrapped) otherwise
		r := u.freshVal(st, to, "conv")
		inr := tAnd(app("<=", lo, v.S), app("<=", v.S, hi))
		st.assumeFact(tImp(inr, tEq(r.S, v.S)))
		if u.overflow {
			u.safetyObl(st, "convoverflow", at, inr)
		}
		return r
	case kf == kString && kt == kString, kf == kBool && kt == kBool, kf == kRef && kt == kRef:
		return &Val{T: to, S: v.S}
	case kf == kFloat && kt == kFloat:
		if sortOf(v.T) == sortOf(to) {
			return &Val{T: to, S: v.S}
		}
		if sortOf(to) == SF32 {
			return &Val{T: to, S: app("(_ to_fp 8 24)", "RNE", v.S)}
		}
		return &Val{T: to, S: app("(_ to_fp 11 53)", "RNE", v.S)}
	case (kf == kInt || kf == kUint || kf == kTime) && kt == kFloat:
		if sortOf(to) == SF32 {
			return &Val{T: to, S: app("(_ to_fp 8 24)", "RNE", app("to_real", v.S))}
		}
		return &Val{T: to, S: app("(_ to_fp 11 53)", "RNE", app("to_real", v.S))}
	case kf == kFloat && (kt == kInt || kt == kUint):
		r := u.freshVal(st, to, "f2i")
		// truncation toward zero when finite and in range (otherwise implementation-defined)
		fr := app("fp.to_real", v.S)
		fin := tAnd(tNot(app("fp.isNaN", v.S)), tNot(app("fp.isInfinite", v.S)))
		pos := tAnd(app("<=", app("to_real", r.S), fr), app("<", fr, app("to_real", app("+", r.S, "1"))))
		neg := tAnd(app(">=", app("to_real", r.S), fr), app(">", fr, app("to_real", app("-", r.S, "1"))))
		lo, hi, _ := intRange(to)
		inr := tAnd(app("<", app("to_real", app("-", lo, "1")), fr), app("<", fr, app("to_real", app("+", hi, "1"))))
		st.assumeFact(tImp(tAnd(fin, inr), tIte(app(">=", fr, "0.0"), pos, neg)))
		return r
	case kf == kSlice && kt == kSlice, kf == kStruct && kt == kStruct, kf == kArray && kt == kArray:
		nv := *v
		nv.T = to
		return &nv
	case kf == kString && kt == kSlice: // []byte(s)
		r := u.freshVal(st, to, "bytes")
		st.assumeFact(tEq(r.Len, app("str.len", v.S)))
		st.assumeFact(tNot(r.Nil))
		return r
	case kf == kSlice && kt == kString: // string(b)
		r := u.freshVal(st, to, "str")
		st.assumeFact(tEq(app("str.len", r.S), v.Len))
		return r
	case (kf == kInt || kf == kUint) && kt == kString:
		return u.freshVal(st, to, "runestr")
	case kt == kTime || kf == kTime:
		return &Val{T: to, S: v.S}
	}
	u.note(fmt.Sprintf("unmodelled conversion %s -> %s", types.TypeString(v.T, nil), types.TypeString(to, nil)))
	return u.freshVal(st, to, "conv")
}

func rangeWithin(flo, fhi, lo, hi string) bool {
	order := map[string]int{"(- 9223372036854775808)": -64, "(- 2147483648)": -32, "(- 32768)": -16, "(- 128)": -8, "0": 0,
		"127": 7, "255": 8, "32767": 15, "65535": 16, "2147483647": 31, "4294967295": 32, "9223372036854775807": 63, "18446744073709551615": 64}
	return order[flo] >= order[lo] && order[fhi] <= order[hi]
}

func (u *Unit) builtin(st *State, name string, x *ast.CallExpr) *Val {
	t := u.typeOf(x)
	switch name {
	case "len", "cap":
		v := u.eval(st, x.Args[0])
		switch kindOf(v.T) {
		case kString:
			return &Val{T: t, S: app("str.len", v.S)}
		case kSlice, kArray:
			if name == "cap" {
				c := u.freshVal(st, t, "cap")
				st.assumeFact(app(">=", c.S, v.Len))
				return c
			}
			return &Val{T: t, S: v.Len}
		case kRef:
			if _, ok := types.Unalias(v.T).Underlying().(*types.Map); ok {
				c := u.d.fun("maplen!"+sortOf(v.T.Underlying().(*types.Map).Key()), []string{arrSort(sortOf(v.T.Underlying().(*types.Map).Key()), SBool)}, SInt)
				r := app(c, tIte(tEq(v.S, "0"), fmt.Sprintf("((as const %s) false)", arrSort(sortOf(v.T.Underlying().(*types.Map).Key()), SBool)), u.mapDom(st, v.T, v.S)))
				st.assumeFact(app(">=", r, "0"))
				// an empty map has length 0 and vice versa
				ks0 := sortOf(v.T.Underlying().(*types.Map).Key())
				st.assumeFact(fmt.Sprintf("(= (= %s 0) (forall ((k %s)) (not (select %s k))))", r, ks0, tIte(tEq(v.S, "0"), fmt.Sprintf("((as const %s) false)", arrSort(ks0, SBool)), u.mapDom(st, v.T, v.S))))
				return &Val{T: t, S: r}
			}
			if p, ok := types.Unalias(v.T).Underlying().(*types.Pointer); ok {
				if a, ok := types.Unalias(p.Elem()).Underlying().(*types.Array); ok {
					return &Val{T: t, S: intLit(a.Len())}
				}
			}
			c := u.freshVal(st, t, "chlen")
			st.assumeFact(app(">=", c.S, "0"))
			return c
		}
	case "append":
		s := u.eval(st, x.Args[0])
		if x.Ellipsis.IsValid() && len(x.Args) == 2 {
			o := u.eval(st, x.Args[1])
			if kindOf(o.T) == kString {
				r := u.freshVal(st, s.T, "app")
				st.assumeFact(tEq(r.Len, app("+", s.Len, app("str.len", o.S))))
				return r
			}
			// concatenation: arr'[i] = i < len(s) ? s[i] : o[i-len(s)]
			es := sortOf(elemType(s.T))
			na := u.d.fresh("cat", arrSort(SInt, es))
			st.assumeFact(fmt.Sprintf("(forall ((i Int)) (! (= (select %s i) (ite (< i %s) (select %s i) (select %s (- i %s)))) :pattern ((select %s i))))", na, s.Len, s.Arr, o.Arr, s.Len, na))
			if s.Nil == "true" && es == SInt {
				if _, ok := u.eng.cs.GhostFields["backing"]; ok {
					st.assumeFact(tEq(app(u.d.fun("region!slice", []string{arrSort(SInt, SInt)}, SInt), na), "0"))
				}
			}
			return &Val{T: s.T, Arr: na, Len: app("+", s.Len, o.Len), Nil: tAnd(s.Nil, o.Nil)}
		}
		arr, n := s.Arr, s.Len
		et := elemType(s.T)
		for _, a := range x.Args[1:] {
			v := u.convertForAssign(st, u.eval(st, a), et)
			arr = app("store", arr, n, u.scalar(st, v))
			n = app("+", n, "1")
		}
		if len(x.Args) > 1 {
			na := u.d.fresh("app", arrSort(SInt, sortOf(et)))
			st.assumeFact(tEq(na, arr))
			arr = na
		}
		nilT := "false"
		if len(x.Args) == 1 {
			nilT = s.Nil
		}
		if s.Nil == "true" && sortOf(et) == SInt {
			// appending to the nil slice allocates private memory (ownership device)
			if _, ok := u.eng.cs.GhostFields["backing"]; ok {
				st.assumeFact(tEq(app(u.d.fun("region!slice", []string{arrSort(SInt, SInt)}, SInt), arr), "0"))
			}
		}
		return &Val{T: s.T, Arr: arr, Len: n, Nil: nilT}
	case "make":
		switch ut := types.Unalias(t).Underlying().(type) {
		case *types.Slice:
			n := "0"
			if len(x.Args) > 1 {
				n = u.eval(st, x.Args[1]).S
				if u.safety {
					u.safetyObl(st, "makelen", x, app(">=", n, "0"))
				}
				st.assume(app(">=", n, "0"))
			}
			if len(x.Args) > 2 {
				u.eval(st, x.Args[2])
			}
			ze := u.scalar(st, u.zeroVal(st, ut.Elem()))
			return &Val{T: t, Arr: fmt.Sprintf("((as const %s) %s)", arrSort(SInt, sortOf(ut.Elem())), ze), Len: n, Nil: "false"}
		case *types.Map:
			for _, a := range x.Args[1:] {
				u.eval(st, a)
			}
			return &Val{T: t, S: u.mapNew(st, t)}
		case *types.Chan:
			for _, a := range x.Args[1:] {
				u.eval(st, a)
			}
			return &Val{T: t, S: u.alloc(st)}
		}
	case "new":
		r := u.alloc(st)
		pt := t
		et := derefType(pt)
		if kindOf(et) == kStruct {
			u.storeStruct(st, r, pt, u.zeroVal(st, et))
		} else {
			u.storeThrough(st, &Val{T: pt, S: r}, u.zeroVal(st, et))
		}
		return &Val{T: t, S: r}
	case "delete":
		m := u.eval(st, x.Args[0])
		k := u.eval(st, x.Args[1])
		if mt, ok := types.Unalias(m.T).Underlying().(*types.Map); ok {
			k = u.convertForAssign(st, k, mt.Key())
			// delete on nil map is a no-op
			st.guard = append(st.guard, app("distinct", m.S, "0"))
			u.mapDelete(st, m.T, m.S, u.scalar(st, k))
			st.guard = st.guard[:len(st.guard)-1]
		}
		return &Val{}
	case "copy":
		dst := u.eval(st, x.Args[0])
		src := u.eval(st, x.Args[1])
		r := u.freshVal(st, types.Typ[types.Int], "copied")
		srcLen := src.Len
		if kindOf(src.T) == kString {
			srcLen = app("str.len", src.S)
		}
		st.assumeFact(tEq(r.S, tIte(app("<=", dst.Len, srcLen), dst.Len, srcLen)))
		if kindOf(src.T) != kString && dst.Arr != "" {
			es := sortOf(elemType(dst.T))
			na := u.d.fresh("copy", arrSort(SInt, es))
			st.assumeFact(fmt.Sprintf("(forall ((i Int)) (! (= (select %s i) (ite (and (<= 0 i) (< i %s)) (select %s i) (select %s i))) :pattern ((select %s i))))", na, r.S, src.Arr, dst.Arr, na))
			u.sliceWrites = true
			u.assignSliceContents(st, x.Args[0], dst, na)
		} else {
			u.note("copy from string: destination contents unmodelled")
		}
		return r
	case "panic":
		for _, a := range x.Args {
			u.eval(st, a)
		}
		u.panicAt(st, x)
		return &Val{}
	case "recover":
		// Go semantics for a recover() reached while the deferred calls of this function run: during a panic it stops
		// the panic and returns its (non-nil) value; otherwise it returns nil
		if st.panicking {
			st.panicking = false
			v := u.freshVal(st, t, "recovered")
			st.assumeFact(app("distinct", v.S, "0"))
			return v
		}
		return &Val{T: t, S: "0"}
	case "close", "print", "println", "clear":
		for _, a := range x.Args {
			u.eval(st, a)
		}
		return &Val{}
	case "min", "max":
		a := u.eval(st, x.Args[0])
		for _, bE := range x.Args[1:] {
			b := u.eval(st, bE)
			c := u.compare(st, token.LEQ, a, b, x).S
			if name == "max" {
				c = u.compare(st, token.GEQ, a, b, x).S
			}
			a = &Val{T: t, S: tIte(c, u.scalar(st, a), u.scalar(st, b))}
		}
		return a
	}
	u.note("unmodelled builtin " + name)
	for _, a := range x.Args {
		u.eval(st, a)
	}
	return u.freshVal(st, t, name)
}

// assignSliceContents replaces the contents of the slice denoted by e (possibly a sub-slice expression).
func (u *Unit) assignSliceContents(st *State, e ast.Expr, dst *Val, na string) {
	e = ast.Unparen(e)
	if se, ok := e.(*ast.SliceExpr); ok {
		// dst is a view base[lo:]: write back into base at offset lo
		base := u.eval(st, se.X)
		lo := "0"
		if se.Low != nil {
			lo = u.eval(st, se.Low).S
		}
		es := sortOf(elemType(base.T))
		nb := u.d.fresh("copyback", arrSort(SInt, es))
		st.assumeFact(fmt.Sprintf("(forall ((i Int)) (! (= (select %s i) (ite (and (<= %s i) (< i (+ %s %s))) (select %s (- i %s)) (select %s i))) :pattern ((select %s i))))", nb, lo, lo, dst.Len, na, lo, base.Arr, nb))
		u.assign(st, se.X, &Val{T: base.T, Arr: nb, Len: base.Len, Nil: base.Nil})
		return
	}
	u.assign(st, e, &Val{T: dst.T, Arr: na, Len: dst.Len, Nil: dst.Nil})
}

func (u *Unit) panicAt(st *State, at ast.Node) {
	if u.nopanic || u.safety {
		u.oblige(st, fmt.Sprintf("nopanic@expr.%d", u.posRank(at.Pos())), "safety", u.pos(at)+" explicit panic", "false", false)
	}
	st.assume("false")
	st.ctl = "panic"
}

// ---------------------------------------------------------------------------
// contract application

func (u *Unit) contractEnv(ct *Contract, sig *types.Signature, recv *Val, args []*Val) map[string]*Val {
	names := map[string]*Val{}
	if recv != nil {
		names["self"] = recv
		if sig != nil && sig.Recv() != nil && sig.Recv().Name() != "" && sig.Recv().Name() != "_" {
			names[sig.Recv().Name()] = recv
		}
		// the receiver name written in the contract's own function (for repo functions) is taken from the declaration
		if fd := u.eng.funcDecls[ct.Pkg+"."+ct.Key]; fd != nil && fd.Recv != nil && len(fd.Recv.List) > 0 && len(fd.Recv.List[0].Names) > 0 {
			names[fd.Recv.List[0].Names[0].Name] = recv
		}
	}
	if len(ct.Params) > 0 {
		for i, p := range ct.Params {
			if i < len(args) {
				names[p] = args[i]
			}
		}
	} else if sig != nil {
		for i := 0; i < sig.Params().Len() && i < len(args); i++ {
			if n := sig.Params().At(i).Name(); n != "" && n != "_" {
				names[n] = args[i]
			}
			names[fmt.Sprintf("arg%d", i)] = args[i]
		}
	}
	return names
}

func bindResults(names map[string]*Val, ct *Contract, sig *types.Signature, rets []*Val) {
	for i, r := range rets {
		names[fmt.Sprintf("res%d", i)] = r
		if sig != nil && i < sig.Results().Len() {
			if n := sig.Results().At(i).Name(); n != "" && n != "_" {
				names[n] = r
			}
		}
		if i < len(ct.Results) {
			names[ct.Results[i]] = r
		}
	}
	if len(rets) > 0 {
		if _, ok := names["res"]; !ok {
			names["res"] = rets[0]
		}
		last := rets[len(rets)-1]
		if last.T != nil && types.TypeString(last.T, nil) == "error" {
			if _, ok := names["err"]; !ok {
				names["err"] = last
			}
		}
		if len(rets) >= 2 && kindOf(last.T) == kBool {
			if _, ok := names["ok"]; !ok {
				names["ok"] = last
			}
		}
	}
}

func (u *Unit) applyContract(st *State, ct *Contract, sig *types.Signature, recv *Val, args []*Val, x *ast.CallExpr, short string) *Val {
	full := ct.Pkg + "." + ct.Key
	if ct.Kind == "extern" {
		full = ct.Key
	}
	u.usedContracts[full] = true
	ct.Used = true
	if ct.Flags["trusted"] != "" {
		u.trusted["trusted contract: "+full] = true
	}
	pkg := u.eng.pkgByPath(ct.Pkg)
	if pkg == nil {
		pkg = u.pkg
	}
	names := u.contractEnv(ct, sig, recv, args)
	n := u.callOrd[x]
	env := &SpecEnv{names: names, pkg: pkg, what: fmt.Sprintf("%s call(%s)", u.name, short)}
	if recv != nil {
		if _, isPtr := types.Unalias(recv.T).Underlying().(*types.Pointer); isPtr && recv.S != "" && !isIface(recv.T) {
			u.derefCheck(st, recv.S, x)
		}
	}
	for _, rq := range ct.Requires {
		g, q := u.evalSpecBool(st, rq.E, env, false)
		u.oblige(st, fmt.Sprintf("call(%s).requires.%d@call.%d", short, rq.N, n), "requires", rq.Text, g, q)
		st.assume(g)
	}
	// repinv of the receiver type is required by and guaranteed after every method under contract
	var recvTS *TypeSpec
	if recv != nil && ct.Kind == "func" && ct.Flags["helper"] == "" {
		recvTS = u.typeSpecOf(recv.T)
	}
	if recvTS != nil && len(recvTS.RepInv) > 0 {
		renv := &SpecEnv{names: map[string]*Val{"self": recv}, pkg: u.eng.pkgOr(recvTS.Pkg, pkg), what: env.what + " repinv"}
		for _, c := range recvTS.RepInv {
			g, q := u.evalSpecBool(st, c.E, renv, false)
			u.oblige(st, fmt.Sprintf("call(%s).repinv.%d@call.%d", short, c.N, n), "repinv", c.Text, g, q)
			st.assume(g)
		}
	}
	pre := st.clone()
	pre.noFacts = 0
	u.applyModifies(st, ct, env)
	if ct.Flags["pure"] == "" {
		st.wm = u.bumpWM(st)
	}
	if ct.Flags["may-panic"] != "" && u.ct != nil && len(u.ct.OnPanic) > 0 && u.quiet == 0 {
		// the callee may also leave by a panic: remember that exit (callee's exceptional postconditions assumed)
		snap := st.clone()
		penv := &SpecEnv{names: names, oldNames: names, old: pre, pkg: pkg, what: env.what + " onpanic"}
		for _, c := range ct.OnPanic {
			g, _ := u.evalSpecBool(snap, c.E, penv, true)
			snap.assume(g)
		}
		snap.ctl = "panic"
		snap.panicking = true
		snap.trace = append(snap.trace, fmt.Sprintf("%s call %s panics", u.pos(x), short))
		u.panicSnaps = append(u.panicSnaps, snap)
		u.panicSites = append(u.panicSites, fmt.Sprintf("%s.%d", short, n))
	}
	var resT types.Type
	if sig != nil {
		resT = sig.Results()
	}
	rv := u.callResult(st, resT, short)
	var rets []*Val
	if resT != nil {
		if tp := resT.(*types.Tuple); tp.Len() == 1 {
			rets = []*Val{rv.Tuple[0]}
			rv = rv.Tuple[0]
		} else {
			rets = rv.Tuple
		}
	}
	names2 := map[string]*Val{}
	for k, v := range names {
		names2[k] = v
	}
	bindResults(names2, ct, sig, rets)
	env2 := &SpecEnv{names: names2, oldNames: names, old: pre, pkg: pkg, what: env.what}
	for _, en := range ct.Ensures {
		g, _ := u.evalSpecBool(st, en.E, env2, true)
		st.assume(g)
	}
	if recvTS != nil {
		renv := &SpecEnv{names: map[string]*Val{"self": recv}, pkg: u.eng.pkgOr(recvTS.Pkg, pkg), old: pre, what: env.what + " repinv"}
		for _, c := range recvTS.RepInv {
			g, _ := u.evalSpecBool(st, c.E, renv, true)
			st.assume(g)
		}
	}
	for _, df := range ct.Defines {
		g, _ := u.evalSpecBool(st, df.E, env2, true)
		st.assume(g)
		u.trusted["definitional clause of "+full+": "+df.Text] = true
	}
	for _, rc := range ct.Records {
		v, _ := u.evalSpec(st, rc.E, env2, true)
		if old, ok := st.gvars[rc.Text]; ok {
			nv := *v
			nv.T = old.T
			st.gvars[rc.Text] = &nv
		} else {
			u.eng.specError("%s: records unknown ghost var %s", env.what, rc.Text)
		}
	}
	if ct.Flags["functional"] != "" && sig != nil {
		// a callee verified `functional`: its results are the uninterpreted function pure!<FullName>!i of the arguments
		var sorts, terms []string
		for _, a := range args {
			sorts = append(sorts, sortOf(a.T))
			terms = append(terms, u.scalar(st, a))
		}
		for i, r := range rets {
			f := u.d.fun(fmt.Sprintf("pure!%s!%d", full, i), sorts, sortOf(r.T))
			st.assumeFact(tEq(u.scalar(st, r), app(f, terms...)))
		}
	}
	st.trace = append(st.trace, fmt.Sprintf("%s call %s (contract)", u.pos(x), short))
	// vacuity guard: the callee's postcondition must be consistent with what is known at this call site
	// (a call site that is unreachable anyway -- pre-state already contradictory -- is dead code, not vacuity)
	u.coverWithPre(st, pre, fmt.Sprintf("call(%s).post-consistent@call.%d", short, n), "assumed postcondition of "+short+" is satisfiable here")
	return rv
}

type modItem struct {
	objT  types.Type
	obj   string // `object x`: every field of the object x refers to
	heap  string
	sort  string
	ref   string // "" = whole array
	gvar  string
	all   bool
}

// resolveModifies evaluates a contract's modifies list in the given environment/state.
func (u *Unit) resolveModifies(st *State, ct *Contract, env *SpecEnv) []modItem {
	var out []modItem
	for _, m := range ct.Modifies {
		m = strings.TrimSpace(m)
		if m == "" {
			continue
		}
		if m == "*" {
			out = append(out, modItem{all: true})
			continue
		}
		if strings.HasPrefix(m, "gvar ") {
			out = append(out, modItem{gvar: strings.TrimSpace(m[5:])})
			continue
		}
		if strings.HasPrefix(m, "ghost ") {
			name := strings.TrimSpace(m[6:])
			gf, ok := u.eng.cs.GhostFields[name]
			if !ok {
				u.eng.specError("%s: modifies unknown ghost field %s", env.what, name)
				continue
			}
			out = append(out, modItem{heap: "G!" + name, sort: sortOf(u.resolveType(u.eng.pkgOr(gf.Pkg, env.pkg), gf.Type))})
			continue
		}
		if m == "counters" {
			out = append(out, modItem{heap: "XC!counter", sort: SInt})
			continue
		}
		if strings.HasPrefix(m, "counter ") {
			e, err := parseSpec(strings.TrimSpace(m[8:]))
			if err != nil {
				u.eng.specError("%s: bad modifies item %q", env.what, m)
				continue
			}
			q := false
			st.noFacts++
			x := u.specExpr(st, e, env, &q)
			st.noFacts--
			out = append(out, modItem{heap: "XC!counter", sort: SInt, ref: x.S})
			continue
		}
		if strings.HasPrefix(m, "object ") {
			e, err := parseSpec(strings.TrimSpace(m[7:]))
			if err != nil {
				u.eng.specError("%s: bad modifies item %q", env.what, m)
				continue
			}
			q := false
			st.noFacts++
			x := u.specExpr(st, e, env, &q)
			st.noFacts--
			out = append(out, modItem{obj: u.scalar(st, x), objT: x.T})
			continue
		}
		if strings.HasPrefix(m, "allmaps ") {
			// allmaps x.f: the contents of every map that shares key and value sorts with x.f (whole arrays)
			e, err := parseSpec(strings.TrimSpace(m[8:]))
			if err != nil {
				u.eng.specError("%s: bad modifies item %q", env.what, m)
				continue
			}
			q := false
			st.noFacts++
			x := u.specExpr(st, e, env, &q)
			st.noFacts--
			if _, ok := types.Unalias(x.T).Underlying().(*types.Map); ok {
				dom, val, ks, vs := u.mapNames(x.T)
				out = append(out, modItem{heap: dom, sort: arrSort(ks, SBool)}, modItem{heap: val, sort: arrSort(ks, vs)})
			} else if xk, xv, ok := xsyncMapTypes(x.T); ok {
				dom, val, ks, vs := u.xmapNames(xk, xv)
				out = append(out, modItem{heap: dom, sort: arrSort(ks, SBool)}, modItem{heap: val, sort: arrSort(ks, vs)})
			} else {
				u.eng.specError("%s: modifies %s: not a map", env.what, m)
			}
			continue
		}
		if strings.HasPrefix(m, "global ") {
			name := strings.TrimSpace(m[7:])
			if o := env.pkg.Types.Scope().Lookup(name); o != nil {
				out = append(out, modItem{heap: "V!" + env.pkg.PkgPath + "." + name, sort: sortOf(o.Type())})
			}
			continue
		}
		e, err := parseSpec(m)
		if err != nil {
			u.eng.specError("%s: bad modifies item %q", env.what, m)
			continue
		}
		mapContents := false
		if e.Op == "idx" && e.Args[1].Op == "id" && e.Args[1].Name == "all" {
			mapContents = true
			e = e.Args[0]
		}
		if e.Op == "sel" {
			// ghost(x).f
			if c := e.Args[0]; c.Op == "call" && c.Args[0].Op == "id" && c.Args[0].Name == "ghost" {
				gf, ok := u.eng.cs.GhostFields[e.Name]
				if !ok {
					u.eng.specError("%s: modifies unknown ghost field %s", env.what, e.Name)
					continue
				}
				q := false
				x := u.specExpr(st, c.Args[1], env, &q)
				gt := u.resolveType(u.eng.pkgOr(gf.Pkg, env.pkg), gf.Type)
				if mapContents {
					// ghost(x).f[all]: the contents of the map stored in the ghost field
					st.noFacts++
					h := u.heapGet(st, "G!"+e.Name, sortOf(gt))
					st.noFacts--
					mref := app("select", h, u.scalar(st, x))
					if _, ok := types.Unalias(gt).Underlying().(*types.Map); ok {
						dom, val, ks, vs := u.mapNames(types.Unalias(gt).Underlying())
						out = append(out, modItem{heap: dom, sort: arrSort(ks, SBool), ref: mref}, modItem{heap: val, sort: arrSort(ks, vs), ref: mref})
					} else {
						u.eng.specError("%s: modifies %s: ghost field is not a map", env.what, m)
					}
					continue
				}
				out = append(out, modItem{heap: "G!" + e.Name, sort: sortOf(gt), ref: u.scalar(st, x)})
				continue
			}
			// pkg.Type.field (whole array)
			if in := e.Args[0]; in.Op == "sel" && in.Args[0].Op == "id" {
				if _, bound := env.names[in.Args[0].Name]; !bound {
					if ip := u.eng.findImport(env.pkg, in.Args[0].Name); ip != nil {
						if o := ip.Scope().Lookup(in.Name); o != nil {
							if tn, ok := o.(*types.TypeName); ok {
								if ft := fieldType(tn.Type(), e.Name); ft != nil {
									out = append(out, modItem{heap: heapName(tn.Type(), e.Name), sort: sortOf(ft)})
									continue
								}
							}
						}
					}
				}
			}
			// Type.field (whole array) when the head is a type name
			if e.Args[0].Op == "id" {
				if _, bound := env.names[e.Args[0].Name]; !bound {
					if o := env.pkg.Types.Scope().Lookup(e.Args[0].Name); o != nil {
						if tn, ok := o.(*types.TypeName); ok {
							ft := fieldType(tn.Type(), e.Name)
							if ft == nil {
								u.eng.specError("%s: modifies: no field %s in %s", env.what, e.Name, tn.Name())
								continue
							}
							if mapContents {
								u.eng.specError("%s: modifies T.f[all] unsupported; use x.f[all]", env.what)
								continue
							}
							out = append(out, modItem{heap: heapName(tn.Type(), e.Name), sort: sortOf(ft)})
							continue
						}
					}
				}
			}
			q := false
			st.noFacts++
			x := u.specExpr(st, e.Args[0], env, &q)
			st.noFacts--
			ft := fieldType(x.T, e.Name)
			if ft == nil {
				u.eng.specError("%s: modifies: cannot resolve %s", env.what, m)
				continue
			}
			if mapContents {
				st.noFacts++
				mv := u.loadField(st, x.S, x.T, e.Name)
				st.noFacts--
				if _, ok := types.Unalias(ft).Underlying().(*types.Map); ok {
					dom, val, ks, vs := u.mapNames(ft)
					out = append(out, modItem{heap: dom, sort: arrSort(ks, SBool), ref: mv.S}, modItem{heap: val, sort: arrSort(ks, vs), ref: mv.S})
				} else if xk, xv, ok := xsyncMapTypes(ft); ok {
					dom, val, ks, vs := u.xmapNames(xk, xv)
					out = append(out, modItem{heap: dom, sort: arrSort(ks, SBool), ref: mv.S}, modItem{heap: val, sort: arrSort(ks, vs), ref: mv.S})
				} else {
					u.eng.specError("%s: modifies %s: not a map", env.what, m)
				}
				continue
			}
			out = append(out, modItem{heap: heapName(x.T, e.Name), sort: sortOf(ft), ref: x.S})
			continue
		}
		if e.Op == "id" && mapContents {
			q := false
			x := u.specExpr(st, e, env, &q)
			if _, ok := types.Unalias(x.T).Underlying().(*types.Map); ok {
				dom, val, ks, vs := u.mapNames(x.T)
				out = append(out, modItem{heap: dom, sort: arrSort(ks, SBool), ref: x.S}, modItem{heap: val, sort: arrSort(ks, vs), ref: x.S})
				continue
			}
		}
		u.eng.specError("%s: unsupported modifies item %q", env.what, m)
	}
	return out
}

func (u *Unit) applyModifies(st *State, ct *Contract, env *SpecEnv) {
	items := u.resolveModifies(st, ct, env)
	for _, it := range items {
		switch {
		case it.obj != "":
			u.havocObject(st, it.obj, it.objT)
		case it.all:
			u.havocAllHeap(st, "modifies * of "+ct.Key)
			for g, v := range st.gvars {
				st.gvars[g] = u.freshVal(st, v.T, "g."+g)
			}
		case it.gvar != "":
			if v, ok := st.gvars[it.gvar]; ok {
				st.gvars[it.gvar] = u.freshVal(st, v.T, "g."+it.gvar)
			}
		case it.ref == "":
			if u.eng.heapSorts[it.heap] == "" {
				u.eng.heapSorts[it.heap] = it.sort
			}
			u.heapGet(st, it.heap, it.sort)
			u.heapHavoc(st, it.heap)
		default:
			h := u.heapGet(st, it.heap, it.sort)
			nv := u.d.fresh("mod", it.sort)
			u.heapSet(st, it.heap, it.sort, app("store", h, it.ref, nv))
		}
	}
}

// ---------------------------------------------------------------------------
// statement-level calls (may fork): closures, inlined functions, Range loops

func (u *Unit) stmtCall(st *State, x *ast.CallExpr, lhs []ast.Expr) ([]*State, bool) {
	fun := ast.Unparen(x.Fun)
	// immediately invoked function literal
	if lit, ok := fun.(*ast.FuncLit); ok {
		var args []*Val
		for _, a := range x.Args {
			args = append(args, u.eval(st, a))
		}
		return u.inlineLit(st, lit, args, lhs), true
	}
	// local closure variable bound to a known literal
	if id, ok := fun.(*ast.Ident); ok {
		if obj, ok := u.info.Uses[id].(*types.Var); ok {
			if v, ok := st.vars[obj]; ok {
				if lit, ok := u.lits[v.S]; ok && u.funcTypeName(fun) == "" {
					var args []*Val
					for _, a := range x.Args {
						args = append(args, u.eval(st, a))
					}
					return u.inlineLit(st, lit, args, lhs), true
				}
			}
		}
	}
	fn, recvExpr, _ := u.calleeOf(x)
	if fn != nil {
		name := fullName(fn)
		if sm, ok := stmtModels[name]; ok {
			return sm(u, st, x, recvExpr, lhs)
		}
		key := funcKey(fn)
		if ct := u.eng.lookupContract(key, fn); ct != nil && ct.Flags["inline"] != "" {
			if fd := u.eng.funcDecls[key]; fd != nil {
				return u.inlineDecl(st, key, fd, recvExpr, x, lhs), true
			}
		}
	}
	return nil, false
}

func (u *Unit) inlineLit(st *State, lit *ast.FuncLit, args []*Val, lhs []ast.Expr) []*State {
	// bind parameters
	i := 0
	for _, f := range lit.Type.Params.List {
		for _, n := range f.Names {
			if obj, ok := u.info.Defs[n].(*types.Var); ok && i < len(args) {
				a := *args[i]
				a.T = obj.Type()
				st.vars[obj] = &a
			}
			i++
		}
		if len(f.Names) == 0 {
			i++
		}
	}
	var named []*types.Var
	if lit.Type.Results != nil {
		for _, f := range lit.Type.Results.List {
			for _, n := range f.Names {
				if obj, ok := u.info.Defs[n].(*types.Var); ok {
					st.vars[obj] = u.zeroVal(st, obj.Type())
					named = append(named, obj)
				}
			}
		}
	}
	return u.inlineBody(st, lit.Body, named, lhs)
}

func (u *Unit) inlineBody(st *State, body *ast.BlockStmt, named []*types.Var, lhs []ast.Expr) []*State {
	savedDefers := st.defers
	st.defers = nil
	u.inlineDepth++
	outs := u.execBlock(st, body.List)
	var res []*State
	for _, o := range outs {
		if o.ctl == "return" || o.ctl == "" {
			wasReturn := o.ctl == "return"
			o.ctl = ""
			rets := o.rets
			if !wasReturn || (len(rets) == 0 && len(named) > 0) {
				rets = nil
				for _, nv := range named {
					rets = append(rets, o.vars[nv])
				}
			}
			// closure-level defers
			ds := o.defers
			o.defers = nil
			after := []*State{o}
			for i := len(ds) - 1; i >= 0; i-- {
				var nx []*State
				for _, a := range after {
					if a.ctl != "" {
						nx = append(nx, a)
						continue
					}
					nx = append(nx, ds[i].call(a)...)
				}
				after = nx
			}
			for _, a := range after {
				a.defers = savedDefers
				a.rets = rets
				if len(lhs) > 0 {
					for i, l := range lhs {
						if i < len(rets) {
							u.assign(a, l, rets[i])
						}
					}
				}
				res = append(res, a)
			}
			continue
		}
		o.defers = savedDefers
		res = append(res, o)
	}
	u.inlineDepth--
	return res
}

func (u *Unit) inlineDecl(st *State, key string, fd *ast.FuncDecl, recvExpr ast.Expr, x *ast.CallExpr, lhs []ast.Expr) []*State {
	p := u.eng.funcPkg[key]
	var recv *Val
	if recvExpr != nil {
		recv = u.eval(st, recvExpr)
	}
	obj := p.TypesInfo.Defs[fd.Name].(*types.Func)
	sig := obj.Type().(*types.Signature)
	args := u.evalArgs(st, x, sig)
	savedPkg, savedInfo := u.pkg, u.info
	u.pkg, u.info = p, p.TypesInfo
	defer func() { u.pkg, u.info = savedPkg, savedInfo }()
	if fd.Recv != nil && len(fd.Recv.List) > 0 && len(fd.Recv.List[0].Names) > 0 && recv != nil {
		if ro, ok := u.info.Defs[fd.Recv.List[0].Names[0]].(*types.Var); ok {
			r := *recv
			// auto address/deref adjustments
			_, wantPtr := types.Unalias(ro.Type()).Underlying().(*types.Pointer)
			_, havePtr := types.Unalias(recv.T).Underlying().(*types.Pointer)
			if havePtr && !wantPtr {
				r = *u.loadThrough(st, recv)
			}
			r.T = ro.Type()
			st.vars[ro] = &r
		}
	}
	i := 0
	for _, f := range fd.Type.Params.List {
		for _, n := range f.Names {
			if o, ok := u.info.Defs[n].(*types.Var); ok && i < len(args) {
				a := *args[i]
				a.T = o.Type()
				st.vars[o] = &a
			}
			i++
		}
		if len(f.Names) == 0 {
			i++
		}
	}
	var named []*types.Var
	if fd.Type.Results != nil {
		for _, f := range fd.Type.Results.List {
			for _, n := range f.Names {
				if o, ok := u.info.Defs[n].(*types.Var); ok {
					st.vars[o] = u.zeroVal(st, o.Type())
					named = append(named, o)
				}
			}
		}
	}
	u.trusted["inlined body: "+key] = false
	// lhs must be assigned with the caller's info
	outs := u.inlineBody(st, fd.Body, named, nil)
	u.pkg, u.info = savedPkg, savedInfo
	for _, o := range outs {
		if o.ctl == "" && len(lhs) > 0 {
			for i, l := range lhs {
				if i < len(o.rets) {
					u.assign(o, l, o.rets[i])
				}
			}
		}
	}
	return outs
}

// freezeCall evaluates receiver and arguments of a deferred call now.
type frozenCall struct {
	recv *Val
	args []*Val
	held map[string]string
}

func (u *Unit) freezeCall(st *State, x *ast.CallExpr) *frozenCall {
	fc := &frozenCall{}
	fn, recvExpr, _ := u.calleeOf(x)
	if fn != nil && recvExpr != nil {
		// only evaluate pure receivers
		fc.recv = u.eval(st, recvExpr)
	}
	return fc
}

func (u *Unit) runFrozen(st *State, x *ast.CallExpr, fc *frozenCall) []*State {
	// deferred calls re-evaluate their (side-effect free) argument expressions at exit; arguments that were
	// values at defer time and have since changed are not distinguished (noted when a defer has arguments).
	if len(x.Args) > 0 {
		u.note("deferred call arguments are evaluated at exit, not at the defer statement: " + exprString(x))
	}
	if outs, handled := u.stmtCall(st, x, nil); handled {
		return outs
	}
	u.eval(st, x)
	return []*State{st}
}

func (e *Engine) pkgOr(path string, def *packages.Package) *packages.Package {
	if p := e.pkgByPath(path); p != nil {
		return p
	}
	return def
}

// callAsserts: obligations attached to a call site of the function under verification
// (`at call <callee> <n> assert <expr>`), evaluated over the caller's locals just before the call.
func (u *Unit) callAsserts(st *State, x *ast.CallExpr) {
	if u.ct == nil || len(u.ct.CallAsserts) == 0 || u.quiet > 0 {
		return
	}
	key := fmt.Sprintf("%s#%d", calleeShortName(x), u.callOrd[x])
	cutStart := -1
	for _, ca := range u.ct.CallAsserts {
		if ca.Text != key {
			continue
		}
		u.callAssertSeen[ca.N] = true
		env := u.specEnvLocal(st, x.Pos(), 0)
		env.what = u.name + " at call " + key
		if ca.Bind != "" {
			// ghost local: remembers a value for later assertions of this function
			if _, clash := u.eng.cs.Ghosts[ca.Bind]; clash {
				u.eng.specError("%s: bind name %s is a declared ghost variable", env.what, ca.Bind)
				continue
			}
			v, _ := u.evalSpec(st, ca.E, env, false)
			st.gvars[ca.Bind] = v
			continue
		}
		g, q := u.evalSpecBool(st, ca.E, env, false)
		if ca.Assume {
			// an explicit assumption about the input at this point (listed in the evidence, never counted as proved)
			u.trusted["assumption at call "+key+" in "+u.name+": "+ca.E.String()] = true
			u.oblige(st, fmt.Sprintf("at-call(%s).assume.%d", key, ca.N), "call-assume", "assumed: "+ca.E.String(), "true", false)
			if cutStart < 0 {
				cutStart = len(st.pc)
			}
			st.assume(g)
			continue
		}
		if cutStart >= 0 && st.entryLen > 0 && st.entryLen <= cutStart {
			// a later assertion of the same site is first attempted from the entry facts and the assertions
			// already proved here alone (a proof from fewer hypotheses is a proof)
			u.nextFocus = append(append([]string{}, st.pc[:st.entryLen]...), st.pc[cutStart:]...)
		}
		u.oblige(st, fmt.Sprintf("at-call(%s).assert.%d", key, ca.N), "call-assert", ca.E.String(), g, q)
		u.nextFocus = nil
		// proved here, known from here on (a cut: later assertions and the postconditions may rely on it)
		if cutStart < 0 {
			cutStart = len(st.pc)
		}
		st.assume(g)
	}
}
