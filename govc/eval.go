package main

// Expression evaluation over the typed AST of the real code.

import (
	"fmt"
	"go/ast"
	"go/constant"
	"go/token"
	"go/types"
	"math/big"
	"strings"
)

func (u *Unit) typeOf(e ast.Expr) types.Type {
	if t := u.info.TypeOf(e); t != nil {
		return t
	}
	return types.Typ[types.Int]
}

func (u *Unit) constVal(st *State, c constant.Value, t types.Type) *Val {
	v := &Val{T: t}
	switch kindOf(t) {
	case kBool:
		if constant.BoolVal(c) {
			v.S = "true"
		} else {
			v.S = "false"
		}
	case kString:
		u.d.strLits[constant.StringVal(c)] = true
		v.S = strLit(constant.StringVal(c))
	case kFloat:
		f, _ := constant.Float64Val(constant.ToFloat(c))
		v.S = fpLit(f, sortOf(t))
	case kInt, kUint, kAtomic, kTime:
		ci := constant.ToInt(c)
		if ci.Kind() != constant.Int {
			f, _ := constant.Float64Val(c)
			v.S = intLit(int64(f))
			break
		}
		bi, ok := new(big.Int).SetString(ci.ExactString(), 10)
		if !ok {
			v.S = "0"
		} else if bi.Sign() < 0 {
			v.S = "(- " + new(big.Int).Neg(bi).String() + ")"
		} else {
			v.S = bi.String()
		}
	case kRef:
		// untyped constant assigned to interface{}: box it
		return u.boxIface(st, u.constVal(st, c, defaultType(c)))
	default:
		v.S = "0"
	}
	return v
}

func defaultType(c constant.Value) types.Type {
	switch c.Kind() {
	case constant.Bool:
		return types.Typ[types.Bool]
	case constant.String:
		return types.Typ[types.String]
	case constant.Int:
		return types.Typ[types.Int]
	case constant.Float:
		return types.Typ[types.Float64]
	}
	return types.Typ[types.Int]
}

// ---------------------------------------------------------------------------
// interface boxing: an interface value is an Int id; typeof(id) is a type tag,
// unbox!<sort>(id) the payload for non-reference dynamic types.

func (u *Unit) typeTag(t types.Type) string {
	t = types.Unalias(t)
	name := types.TypeString(t, nil)
	u.eng.tagNames[name] = true
	return u.d.constant("tag!"+name, SInt)
}

func (u *Unit) typeofFn() string { return u.d.fun("typeof", []string{SInt}, SInt) }
func (u *Unit) unboxFn(sort string) string {
	return u.d.fun("unbox!"+sort, []string{SInt}, sort)
}

func isIface(t types.Type) bool {
	if t == nil {
		return false
	}
	_, ok := types.Unalias(t).Underlying().(*types.Interface)
	return ok
}

// boxIface converts a concrete value to an interface value.
func (u *Unit) boxIface(st *State, v *Val) *Val {
	if v == nil || v.T == nil || isIface(v.T) {
		return v
	}
	if b, ok := v.T.(*types.Basic); ok && b.Kind() == types.UntypedNil {
		return &Val{T: v.T, S: "0"}
	}
	switch kindOf(v.T) {
	case kRef:
		// pointer/map/func in an interface: identity is the reference; nil pointer in interface is non-nil iface
		// (not modelled: typed nil) -- keep the reference.
		if v.S != "0" {
			st.assumeFact(tImp(app("distinct", v.S, "0"), tEq(app(u.typeofFn(), v.S), u.typeTag(v.T))))
			// a non-nil pointer to a named struct stored in an interface: errors.As finds it under its own type
			if p, ok := types.Unalias(v.T).(*types.Pointer); ok {
				if _, named := types.Unalias(p.Elem()).(*types.Named); named {
					tn := types.TypeString(v.T, nil)
					okf := u.d.fun("fn!errors.As!"+tn, []string{SInt}, SBool)
					valf := u.d.fun("fn!errors.AsVal!"+tn, []string{SInt}, SInt)
					st.assumeFact(tImp(app("distinct", v.S, "0"), tAnd(app(okf, v.S), tEq(app(valf, v.S), v.S))))
				}
			}
		}
		return &Val{T: v.T, S: v.S}
	}
	id := u.d.fresh("iface", SInt)
	st.assumeFact(app(">", id, "0"))
	st.assumeFact(tEq(app(u.typeofFn(), id), u.typeTag(v.T)))
	s := sortOf(v.T)
	st.assumeFact(tEq(app(u.unboxFn(s), id), u.scalar(st, v)))
	return &Val{T: types.NewInterfaceType(nil, nil), S: id}
}

func (u *Unit) convertForAssign(st *State, v *Val, to types.Type) *Val {
	if v == nil || to == nil {
		return v
	}
	if b, ok := v.T.(*types.Basic); ok && b.Kind() == types.UntypedNil && v.Arr == "" {
		if k := kindOf(to); k == kSlice {
			return u.zeroVal(st, to)
		}
	}
	if isIface(to) && !isIface(v.T) {
		b := u.boxIface(st, v)
		return &Val{T: to, S: b.S}
	}
	return v
}

// ---------------------------------------------------------------------------

func (u *Unit) eval(st *State, e ast.Expr) *Val {
	if tv, ok := u.info.Types[e]; ok && tv.Value != nil {
		return u.constVal(st, tv.Value, tv.Type)
	}
	switch x := e.(type) {
	case *ast.ParenExpr:
		return u.eval(st, x.X)
	case *ast.BasicLit:
		return u.freshVal(st, u.typeOf(e), "lit")
	case *ast.Ident:
		return u.evalIdent(st, x)
	case *ast.SelectorExpr:
		return u.evalSelector(st, x)
	case *ast.StarExpr:
		p := u.eval(st, x.X)
		u.derefCheck(st, p.S, x)
		return u.loadThrough(st, p)
	case *ast.UnaryExpr:
		return u.evalUnary(st, x)
	case *ast.BinaryExpr:
		return u.evalBinary(st, x)
	case *ast.CallExpr:
		return u.call(st, x)
	case *ast.IndexExpr:
		return u.evalIndex(st, x)
	case *ast.SliceExpr:
		return u.evalSlice(st, x)
	case *ast.CompositeLit:
		return u.evalComposite(st, x)
	case *ast.FuncLit:
		id := u.d.fresh("closure", SInt)
		st.assumeFact(app(">", id, "0"))
		u.lits[id] = x
		cv := &Val{T: u.typeOf(e), S: id}
		u.assumePureResult(st, x, cv)
		return cv
	case *ast.TypeAssertExpr:
		v, _ := u.evalTypeAssert(st, x, false)
		return v
	case *ast.KeyValueExpr:
		return u.eval(st, x.Value)
	}
	u.note(fmt.Sprintf("unmodelled expression %T", e))
	return u.freshVal(st, u.typeOf(e), "unk")
}

func (u *Unit) loadThrough(st *State, p *Val) *Val {
	et := derefType(p.T)
	switch kindOf(et) {
	case kStruct:
		return u.loadStruct(st, p.S, p.T)
	case kUnit:
		return &Val{T: et, S: "0"}
	}
	s := sortOf(et)
	h := u.heapGet(st, "P!"+typeKey(et), s)
	return u.fromScalar(st, app("select", h, p.S), et)
}

func (u *Unit) storeThrough(st *State, p *Val, v *Val) {
	et := derefType(p.T)
	switch kindOf(et) {
	case kStruct:
		u.storeStruct(st, p.S, p.T, v)
		return
	case kUnit:
		return
	}
	s := sortOf(et)
	hn := "P!" + typeKey(et)
	h := u.heapGet(st, hn, s)
	u.heapSet(st, hn, s, app("store", h, p.S, u.scalar(st, v)))
}

func (u *Unit) derefCheck(st *State, ref string, at ast.Node) {
	if ref == "" {
		return
	}
	if u.safety {
		u.safetyObl(st, "nilderef", at, app("distinct", ref, "0"))
	}
	st.assume(app("distinct", ref, "0"))
}

func (u *Unit) safetyObl(st *State, kind string, at ast.Node, goal string) {
	if u.quiet > 0 {
		return
	}
	n := u.safetyOrd(kind, at)
	u.oblige(st, fmt.Sprintf("safety.%s@expr.%d", kind, n), "safety", u.pos(at)+" "+exprString(at), goal, false)
}

func (u *Unit) safetyOrd(kind string, at ast.Node) int {
	key := kind
	if u.safetySites == nil {
		u.safetySites = map[string]map[token.Pos]int{}
	}
	m := u.safetySites[key]
	if m == nil {
		m = map[token.Pos]int{}
		u.safetySites[key] = m
		// assign ordinals in source order lazily: collect positions deterministically
	}
	if n, ok := m[at.Pos()]; ok {
		return n
	}
	// ordinal = rank of position among all nodes in body (stable for unchanged code; source order)
	n := u.posRank(at.Pos())
	m[at.Pos()] = n
	return n
}

func (u *Unit) evalIdent(st *State, x *ast.Ident) *Val {
	switch x.Name {
	case "nil":
		if _, ok := u.info.Uses[x].(*types.Nil); ok {
			t := u.typeOf(x)
			if kindOf(t) == kSlice {
				return u.zeroVal(st, t)
			}
			return &Val{T: t, S: "0"}
		}
	case "_":
		return &Val{T: types.Typ[types.Int], S: "0"}
	}
	obj := u.info.Uses[x]
	if obj == nil {
		obj = u.info.Defs[x]
	}
	switch o := obj.(type) {
	case *types.Var:
		if r, esc := st.escaped[o]; esc {
			return u.loadStruct(st, r, types.NewPointer(o.Type()))
		}
		if v, ok := st.vars[o]; ok {
			return v
		}
		if isSentinel(o) {
			return u.sentinel(st, o)
		}
		if v := u.constPkgVar(st, o); v != nil {
			return v
		}
		if o.Pkg() != nil && o.Parent() == o.Pkg().Scope() {
			// package-level variable: a one-cell heap
			name := "V!" + o.Pkg().Path() + "." + o.Name()
			if kindOf(o.Type()) == kStruct || kindOf(o.Type()) == kSlice {
				h := u.heapGet(st, name, SInt)
				return u.fromScalar(st, app("select", h, "0"), o.Type())
			}
			h := u.heapGet(st, name, sortOf(o.Type()))
			return u.fromScalar(st, app("select", h, "0"), o.Type())
		}
		// captured or otherwise unknown variable: arbitrary but fixed per unit (created at entry by prescan)
		u.note("variable read before binding: " + o.Name())
		v := u.freshVal(st, o.Type(), o.Name())
		st.vars[o] = v
		return v
	case *types.Const:
		return u.constVal(st, o.Val(), o.Type())
	case *types.Func:
		c := u.d.constant("fn!"+funcKey(o), SInt)
		st.assumeFact(app(">", c, "0"))
		return &Val{T: o.Type(), S: c}
	case *types.Nil:
		return &Val{T: u.typeOf(x), S: "0"}
	}
	u.note("unmodelled identifier " + x.Name)
	return u.freshVal(st, u.typeOf(x), x.Name)
}

func (u *Unit) evalSelector(st *State, x *ast.SelectorExpr) *Val {
	sel, ok := u.info.Selections[x]
	if !ok {
		// qualified identifier pkg.Name
		return u.evalIdent(st, x.Sel)
	}
	switch sel.Kind() {
	case types.FieldVal:
		base := u.eval(st, x.X)
		return u.selectPath(st, base, sel.Index(), x)
	case types.MethodVal, types.MethodExpr:
		u.eval(st, x.X)
		c := u.d.fresh("methodval", SInt)
		st.assumeFact(app(">", c, "0"))
		return &Val{T: u.typeOf(x), S: c}
	}
	return u.freshVal(st, u.typeOf(x), "sel")
}

// selectPath follows a field index path (with implicit dereferences).
func (u *Unit) selectPath(st *State, base *Val, path []int, at ast.Node) *Val {
	cur := base
	for _, idx := range path {
		s := structOf(cur.T)
		if s == nil {
			u.note("selector on non-struct " + typeKey(cur.T))
			return u.freshVal(st, u.typeOf(at.(ast.Expr)), "sel")
		}
		f := s.Field(idx)
		if _, isPtr := types.Unalias(cur.T).Underlying().(*types.Pointer); isPtr {
			u.derefCheck(st, cur.S, at)
			u.guardedRead(st, cur, f.Name(), at)
			cur = u.loadField(st, cur.S, cur.T, f.Name())
		} else {
			cur = u.field(st, cur, f.Name())
		}
	}
	return cur
}

func (u *Unit) evalUnary(st *State, x *ast.UnaryExpr) *Val {
	switch x.Op {
	case token.NOT:
		v := u.eval(st, x.X)
		return &Val{T: v.T, S: tNot(v.S)}
	case token.SUB:
		v := u.eval(st, x.X)
		if kindOf(v.T) == kFloat {
			return &Val{T: v.T, S: app("fp.neg", v.S)}
		}
		return u.arith(st, "-", &Val{T: v.T, S: "0"}, v, v.T, x)
	case token.ADD:
		return u.eval(st, x.X)
	case token.AND:
		return u.evalAddrOf(st, x)
	case token.ARROW:
		u.eval(st, x.X)
		t := u.typeOf(x)
		if tp, ok := t.(*types.Tuple); ok {
			t = tp.At(0).Type()
		}
		return u.freshVal(st, t, "recv")
	case token.XOR:
		u.eval(st, x.X)
		return u.freshVal(st, u.typeOf(x), "xor")
	}
	u.note("unmodelled unary " + x.Op.String())
	return u.freshVal(st, u.typeOf(x), "un")
}

func (u *Unit) evalAddrOf(st *State, x *ast.UnaryExpr) *Val {
	t := u.typeOf(x)
	inner := ast.Unparen(x.X)
	if cl, ok := inner.(*ast.CompositeLit); ok {
		v := u.evalComposite(st, cl)
		r := u.alloc(st)
		if kindOf(v.T) == kStruct {
			u.storeStruct(st, r, t, v)
		}
		return &Val{T: t, S: r}
	}
	// &x.f, &x, &a[i]: pointer to an lvalue. Modelled only for struct-typed targets reached through a pointer
	// (the address is then field-offset free: we cannot name it) -> allocate an alias cell and note it.
	if id, ok := inner.(*ast.Ident); ok {
		if obj, ok := u.info.Uses[id].(*types.Var); ok {
			if r, esc := st.escaped[obj]; esc {
				return &Val{T: t, S: r}
			}
			if cur, ok := st.vars[obj]; ok && kindOf(cur.T) == kStruct {
				// the local moves to the heap: every later use of the variable goes through this cell
				r := u.alloc(st)
				u.storeStruct(st, r, t, cur)
				if st.escaped == nil {
					st.escaped = map[types.Object]string{}
				}
				st.escaped[obj] = r
				return &Val{T: t, S: r}
			}
		}
	}
	if se, ok := inner.(*ast.SelectorExpr); ok {
		// &p.f where f is a struct-valued field: no interior pointers in the heap model
		u.eval(st, se.X)
	}
	u.note("interior/local pointer " + exprString(x) + " is an opaque fresh reference")
	r := u.d.fresh("addr", SInt)
	st.assumeFact(app(">", r, "0"))
	u.ptrs[r] = inner
	return &Val{T: t, S: r}
}

func isCmp(op token.Token) bool {
	switch op {
	case token.EQL, token.NEQ, token.LSS, token.LEQ, token.GTR, token.GEQ:
		return true
	}
	return false
}

func (u *Unit) evalBinary(st *State, x *ast.BinaryExpr) *Val {
	switch x.Op {
	case token.LAND:
		a := u.eval(st, x.X)
		st.guard = append(st.guard, a.S)
		b := u.eval(st, x.Y)
		st.guard = st.guard[:len(st.guard)-1]
		return &Val{T: types.Typ[types.Bool], S: tAnd(a.S, b.S)}
	case token.LOR:
		a := u.eval(st, x.X)
		st.guard = append(st.guard, tNot(a.S))
		b := u.eval(st, x.Y)
		st.guard = st.guard[:len(st.guard)-1]
		return &Val{T: types.Typ[types.Bool], S: tOr(a.S, b.S)}
	}
	a := u.eval(st, x.X)
	b := u.eval(st, x.Y)
	if isCmp(x.Op) {
		return u.compare(st, x.Op, a, b, x)
	}
	return u.arith(st, x.Op.String(), a, b, u.typeOf(x), x)
}

func (u *Unit) compare(st *State, op token.Token, a, b *Val, at ast.Node) *Val {
	bt := types.Typ[types.Bool]
	ka, kb := kindOf(a.T), kindOf(b.T)
	// interface vs concrete comparison: box the concrete side
	if isIface(a.T) && !isIface(b.T) && kb != kRef {
		b = u.boxIfaceCmp(st, b)
		kb = kRef
	} else if isIface(b.T) && !isIface(a.T) && ka != kRef {
		a = u.boxIfaceCmp(st, a)
		ka = kRef
	}
	if ka == kSlice || kb == kSlice {
		// only comparison with nil is legal
		s := a
		if ka != kSlice || (a.Nil == "true" && a.Len == "0" && kb == kSlice) {
			s = b
		}
		r := s.Nil
		if r == "" {
			r = tEq(s.Len, "0")
		}
		if op == token.NEQ {
			r = tNot(r)
		}
		return &Val{T: bt, S: r}
	}
	if ka == kStruct || kb == kStruct {
		// struct equality: fieldwise on comparable scalar fields
		s := structOf(a.T)
		var conj []string
		for i := 0; s != nil && i < s.NumFields(); i++ {
			fa, fb := u.field(st, a, s.Field(i).Name()), u.field(st, b, s.Field(i).Name())
			conj = append(conj, tEq(u.scalar(st, fa), u.scalar(st, fb)))
		}
		r := tAnd(conj...)
		if op == token.NEQ {
			r = tNot(r)
		}
		return &Val{T: bt, S: r}
	}
	as, bs := u.scalar(st, a), u.scalar(st, b)
	if ka == kFloat || kb == kFloat {
		m := map[token.Token]string{token.EQL: "fp.eq", token.LSS: "fp.lt", token.LEQ: "fp.leq", token.GTR: "fp.gt", token.GEQ: "fp.geq"}
		if op == token.NEQ {
			return &Val{T: bt, S: tNot(app("fp.eq", as, bs))}
		}
		return &Val{T: bt, S: app(m[op], as, bs)}
	}
	if ka == kString {
		switch op {
		case token.EQL:
			return &Val{T: bt, S: tEq(as, bs)}
		case token.NEQ:
			return &Val{T: bt, S: tNot(tEq(as, bs))}
		case token.LSS:
			return &Val{T: bt, S: app("str.<", as, bs)}
		case token.LEQ:
			return &Val{T: bt, S: app("str.<=", as, bs)}
		case token.GTR:
			return &Val{T: bt, S: app("str.<", bs, as)}
		case token.GEQ:
			return &Val{T: bt, S: app("str.<=", bs, as)}
		}
	}
	switch op {
	case token.EQL:
		return &Val{T: bt, S: tEq(as, bs)}
	case token.NEQ:
		return &Val{T: bt, S: tNot(tEq(as, bs))}
	case token.LSS:
		return &Val{T: bt, S: app("<", as, bs)}
	case token.LEQ:
		return &Val{T: bt, S: app("<=", as, bs)}
	case token.GTR:
		return &Val{T: bt, S: app(">", as, bs)}
	case token.GEQ:
		return &Val{T: bt, S: app(">=", as, bs)}
	}
	return u.freshVal(st, bt, "cmp")
}

func (u *Unit) boxIfaceCmp(st *State, v *Val) *Val {
	// comparing iface == "literal": iface equals a box with that payload. Use canonical boxes per (sort,payload):
	s := sortOf(v.T)
	fn := u.d.fun("canonbox!"+s, []string{s}, SInt)
	id := app(fn, u.scalar(st, v))
	// axiom instances: typeof(canonbox(x)) = tag, unbox(canonbox(x)) = x
	st.assumeFact(tEq(app(u.typeofFn(), id), u.typeTag(v.T)))
	st.assumeFact(tEq(app(u.unboxFn(s), id), u.scalar(st, v)))
	st.assumeFact(app(">", id, "0"))
	u.note("interface comparison with a concrete value uses canonical boxes (payload equality)")
	return &Val{T: types.NewInterfaceType(nil, nil), S: id}
}

func (u *Unit) arith(st *State, op string, a, b *Val, t types.Type, at ast.Node) *Val {
	k := kindOf(t)
	as, bs := u.scalar(st, a), u.scalar(st, b)
	switch k {
	case kString:
		if op == "+" {
			return &Val{T: t, S: app("str.++", as, bs)}
		}
	case kFloat:
		m := map[string]string{"+": "fp.add", "-": "fp.sub", "*": "fp.mul", "/": "fp.div"}
		if f, ok := m[op]; ok {
			// operands may be int constants converted: ensure sorts match
			return &Val{T: t, S: app(f, "RNE", as, bs)}
		}
	case kInt, kUint, kTime, kAtomic:
		var r string
		switch op {
		case "+", "-", "*":
			r = app(op, as, bs)
		case "/":
			if u.safety {
				u.safetyObl(st, "divzero", at, app("distinct", bs, "0"))
			}
			st.assume(app("distinct", bs, "0"))
			if k == kUint {
				r = app("div", as, bs)
			} else {
				r = app("godiv", as, bs)
			}
		case "%":
			if u.safety {
				u.safetyObl(st, "divzero", at, app("distinct", bs, "0"))
			}
			st.assume(app("distinct", bs, "0"))
			if k == kUint {
				r = app("mod", as, bs)
			} else {
				r = app("gomod", as, bs)
			}
		case "<<":
			if isLit(bs) {
				r = app("*", as, pow2(bs))
			}
		case ">>":
			if isLit(bs) {
				r = app("div", as, pow2(bs))
			}
		}
		if r != "" {
			if k == kUint {
				if m := uintModulus(t); m != "" && op != "/" && op != "%" && op != ">>" {
					r = app("mod", r, m)
				}
			} else if u.overflow && (op == "+" || op == "-" || op == "*") {
				if lo, hi, ok := intRange(t); ok {
					u.safetyObl(st, "overflow", at, tAnd(app("<=", lo, r), app("<=", r, hi)))
				}
			}
			return &Val{T: t, S: r}
		}
	}
	u.note("unmodelled arithmetic " + op + " on " + types.TypeString(t, nil))
	return u.freshVal(st, t, "arith")
}

func isLit(s string) bool {
	if s == "" {
		return false
	}
	for _, c := range s {
		if c < '0' || c > '9' {
			return false
		}
	}
	return true
}

func pow2(s string) string {
	n := 0
	fmt.Sscanf(s, "%d", &n)
	return new(big.Int).Lsh(big.NewInt(1), uint(n)).String()
}

func (u *Unit) evalIndex(st *State, x *ast.IndexExpr) *Val {
	// generic instantiation f[T]
	if tv, ok := u.info.Types[x.X]; ok && tv.IsType() {
		return u.freshVal(st, u.typeOf(x), "inst")
	}
	if _, isSig := u.typeOf(x.X).Underlying().(*types.Signature); isSig {
		return u.eval(st, x.X)
	}
	base := u.eval(st, x.X)
	bt := types.Unalias(base.T).Underlying()
	if p, ok := bt.(*types.Pointer); ok { // pointer to array
		base = u.loadThrough(st, base)
		bt = types.Unalias(p.Elem()).Underlying()
	}
	switch t := bt.(type) {
	case *types.Map:
		k := u.eval(st, x.Index)
		k = u.convertForAssign(st, k, t.Key())
		v, _ := u.mapLoad(st, base.T, base.S, u.scalar(st, k))
		return v
	case *types.Slice, *types.Array:
		i := u.eval(st, x.Index)
		u.boundsCheck(st, i.S, base.Len, x)
		return u.fromScalar(st, app("select", base.Arr, i.S), elemType(base.T))
	case *types.Basic: // string
		i := u.eval(st, x.Index)
		u.boundsCheck(st, i.S, app("str.len", base.S), x)
		return &Val{T: types.Typ[types.Byte], S: app("str.to_code", app("str.at", base.S, i.S))}
	}
	u.note("unmodelled index on " + types.TypeString(base.T, nil))
	return u.freshVal(st, u.typeOf(x), "idx")
}

func (u *Unit) boundsCheck(st *State, i, n string, at ast.Node) {
	ok := tAnd(app("<=", "0", i), app("<", i, n))
	if u.safety {
		u.safetyObl(st, "bounds", at, ok)
	}
	st.assume(ok)
}

func (u *Unit) evalSlice(st *State, x *ast.SliceExpr) *Val {
	base := u.eval(st, x.X)
	lo, hi := "0", ""
	if x.Low != nil {
		lo = u.eval(st, x.Low).S
	}
	if kindOf(base.T) == kString {
		n := app("str.len", base.S)
		if x.High != nil {
			hi = u.eval(st, x.High).S
		} else {
			hi = n
		}
		ok := tAnd(app("<=", "0", lo), app("<=", lo, hi), app("<=", hi, n))
		if u.safety {
			u.safetyObl(st, "bounds", x, ok)
		}
		st.assume(ok)
		return &Val{T: base.T, S: app("str.substr", base.S, lo, app("-", hi, lo))}
	}
	if p, ok := types.Unalias(base.T).Underlying().(*types.Pointer); ok {
		base = u.loadThrough(st, base)
		_ = p
	}
	if base.Arr == "" {
		u.note("unmodelled slice expression")
		return u.freshVal(st, u.typeOf(x), "slice")
	}
	if x.High != nil {
		hi = u.eval(st, x.High).S
	} else {
		hi = base.Len
	}
	// capacity is not modelled: hi <= cap is assumed to be hi <= len unless the slice was made with a capacity
	capT := base.Len
	ok := tAnd(app("<=", "0", lo), app("<=", lo, hi))
	if u.safety {
		u.safetyObl(st, "bounds", x, tAnd(ok, app("<=", hi, capT)))
	}
	st.assume(ok)
	out := &Val{T: u.typeOf(x), Len: app("-", hi, lo), Nil: base.Nil}
	if lo == "0" {
		out.Arr = base.Arr
	} else {
		// shifted view: arr'[i] = arr[i+lo]
		es := sortOf(elemType(base.T))
		na := u.d.fresh("shift", arrSort(SInt, es))
		q := u.d.fresh("q", SInt)
		_ = q
		st.assumeFact(fmt.Sprintf("(forall ((i Int)) (! (= (select %s i) (select %s (+ i %s))) :pattern ((select %s i))))", na, base.Arr, lo, na))
		out.Arr = na
	}
	if _, isArr := types.Unalias(base.T).Underlying().(*types.Array); isArr {
		out.Nil = "false"
	}
	return out
}

func (u *Unit) evalComposite(st *State, x *ast.CompositeLit) *Val {
	t := u.typeOf(x)
	switch ut := types.Unalias(t).Underlying().(type) {
	case *types.Struct:
		v := u.zeroVal(st, t)
		if v.Fields == nil {
			v.Fields = map[string]*Val{}
		}
		for i, el := range x.Elts {
			if kv, ok := el.(*ast.KeyValueExpr); ok {
				name := kv.Key.(*ast.Ident).Name
				fv := u.eval(st, kv.Value)
				v.Fields[name] = u.convertForAssign(st, fv, fieldType(t, name))
			} else {
				f := ut.Field(i)
				v.Fields[f.Name()] = u.convertForAssign(st, u.eval(st, el), f.Type())
			}
		}
		return v
	case *types.Slice, *types.Array:
		et := elemType(t)
		v := u.zeroVal(st, t)
		arr := v.Arr
		n := 0
		for _, el := range x.Elts {
			var ev *Val
			if kv, ok := el.(*ast.KeyValueExpr); ok {
				ev = u.evalElt(st, kv.Value, et)
				if tv, ok := u.info.Types[kv.Key]; ok && tv.Value != nil {
					if i64, ok := constant.Int64Val(tv.Value); ok {
						n = int(i64)
					}
				}
			} else {
				ev = u.evalElt(st, el, et)
			}
			arr = app("store", arr, intLit(int64(n)), u.scalar(st, u.convertForAssign(st, ev, et)))
			n++
		}
		if _, isArr := ut.(*types.Array); !isArr {
			v.Len = intLit(int64(n))
		}
		v.Nil = "false"
		if len(x.Elts) > 0 {
			na := u.d.fresh("lit", arrSort(SInt, sortOf(et)))
			st.assumeFact(tEq(na, arr))
			arr = na
		}
		v.Arr = arr
		return v
	case *types.Map:
		r := u.mapNew(st, t)
		for _, el := range x.Elts {
			kv := el.(*ast.KeyValueExpr)
			k := u.convertForAssign(st, u.evalElt(st, kv.Key, ut.Key()), ut.Key())
			val := u.convertForAssign(st, u.evalElt(st, kv.Value, ut.Elem()), ut.Elem())
			u.mapStore(st, t, r, u.scalar(st, k), val)
		}
		return &Val{T: t, S: r}
	case *types.Pointer:
		// &T{} elided inside composite of pointers
		inner := u.zeroVal(st, ut.Elem())
		_ = inner
	}
	u.note("unmodelled composite literal " + types.TypeString(t, nil))
	return u.freshVal(st, t, "comp")
}

// evalElt evaluates an element of a composite literal whose type may be elided.
func (u *Unit) evalElt(st *State, e ast.Expr, et types.Type) *Val {
	if cl, ok := e.(*ast.CompositeLit); ok && cl.Type == nil {
		if p, ok := types.Unalias(et).Underlying().(*types.Pointer); ok {
			_ = p
			v := u.evalComposite(st, cl)
			r := u.alloc(st)
			u.storeStruct(st, r, et, v)
			return &Val{T: et, S: r}
		}
	}
	return u.eval(st, e)
}

func (u *Unit) evalTypeAssert(st *State, x *ast.TypeAssertExpr, commaOk bool) (*Val, string) {
	v := u.eval(st, x.X)
	if x.Type == nil {
		return v, "true"
	}
	t := u.typeOf(x.Type)
	if tp, ok := u.typeOf(x).(*types.Tuple); ok && tp.Len() == 2 {
		t = tp.At(0).Type()
	}
	var ok string
	if isIface(t) {
		okc := u.d.fresh("implements", SBool)
		st.assumeFact(tImp(tEq(v.S, "0"), tNot(okc)))
		// same dynamic type => same answer: a function of the type tag
		fn := u.d.fun("implements!"+types.TypeString(t, nil), []string{SInt}, SBool)
		st.assumeFact(tImp(app("distinct", v.S, "0"), tEq(okc, app(fn, app(u.typeofFn(), v.S)))))
		ok = okc
	} else {
		ok = tAnd(app("distinct", v.S, "0"), tEq(app(u.typeofFn(), v.S), u.typeTag(t)))
	}
	if !commaOk {
		if u.safety {
			u.safetyObl(st, "typeassert", x, ok)
		}
		st.assume(ok)
	}
	var out *Val
	switch kindOf(t) {
	case kRef:
		out = &Val{T: t, S: v.S}
		if commaOk {
			out = &Val{T: t, S: tIte(ok, v.S, "0")}
		}
	default:
		s := sortOf(t)
		payload := u.fromScalar(st, app(u.unboxFn(s), v.S), t)
		if commaOk {
			z := u.zeroVal(st, t)
			payload = u.fromScalar(st, tIte(ok, u.scalar(st, payload), u.scalar(st, z)), t)
		}
		out = payload
	}
	return out, ok
}

func exprString(n ast.Node) string {
	var b strings.Builder
	switch x := n.(type) {
	case *ast.Ident:
		return x.Name
	case *ast.SelectorExpr:
		return exprString(x.X) + "." + x.Sel.Name
	case *ast.CallExpr:
		return exprString(x.Fun) + "(…)"
	case *ast.IndexExpr:
		return exprString(x.X) + "[" + exprString(x.Index) + "]"
	case *ast.StarExpr:
		return "*" + exprString(x.X)
	case *ast.UnaryExpr:
		return x.Op.String() + exprString(x.X)
	case *ast.BinaryExpr:
		return exprString(x.X) + x.Op.String() + exprString(x.Y)
	case *ast.BasicLit:
		return x.Value
	case *ast.ParenExpr:
		return "(" + exprString(x.X) + ")"
	case *ast.SliceExpr:
		return exprString(x.X) + "[:]"
	case *ast.TypeAssertExpr:
		return exprString(x.X) + ".(T)"
	case *ast.CompositeLit:
		return "T{…}"
	case *ast.FuncLit:
		return "func(){…}"
	}
	fmt.Fprintf(&b, "%T", n)
	return b.String()
}

// package-level error variables (sentinels such as ErrCircuitOpen, context.Canceled) are treated as immutable,
// non-nil, pairwise distinct constants.
func isSentinel(o *types.Var) bool {
	if o.Pkg() == nil || o.Parent() != o.Pkg().Scope() {
		return false
	}
	if o.Pkg().Path() == "net/http" && o.Name() == "NoBody" {
		return true
	}
	return types.TypeString(o.Type(), nil) == "error"
}

func (u *Unit) sentinel(st *State, o *types.Var) *Val {
	u.trusted["package-level error variables are immutable non-nil sentinels"] = true
	c := u.d.constant("sentinel!"+o.Pkg().Path()+"."+o.Name(), SInt)
	u.sentinels[c] = true
	u.d.axiom(app(">", c, "0"))
	u.d.axiom(app("<=", c, "|wm@0|")) // created at package initialisation: older than anything the unit allocates
	if kindOf(o.Type()) != kRef {
		// http.NoBody: a struct value only ever used through interfaces
		return &Val{T: types.NewInterfaceType(nil, nil), S: c}
	}
	return &Val{T: o.Type(), S: c}
}

// constPkgVar: a package-level `var x = []T{constants...}` that is never assigned or indexed-assigned anywhere in
// its package is an immutable table; its contents are taken from the initialiser.
func (u *Unit) constPkgVar(st *State, o *types.Var) *Val {
	if o.Pkg() == nil || o.Parent() != o.Pkg().Scope() || kindOf(o.Type()) != kSlice {
		return nil
	}
	info := u.eng.pkgVarInit(o)
	if info == nil {
		return nil
	}
	key := o.Pkg().Path() + "." + o.Name()
	u.trusted["package-level table "+key+" is initialised once and never written (checked syntactically in its package)"] = true
	et := elemType(o.Type())
	arr := u.d.constant("table!"+key, arrSort(SInt, sortOf(et)))
	for i, c := range info {
		el := u.scalar(st, u.constVal(st, c, et))
		u.d.axiom(tEq(app("select", arr, intLit(int64(i))), el))
		if kindOf(et) == kString {
			// the uninterpreted string functions agree with govc's evaluation on the table's literals
			if lit, ok := unquoteSMT(el); ok && isASCII(lit) {
				u.d.axiom(tEq(app(u.d.fun("fn!fold", []string{SStr}, SStr), el), strLit(strings.ToLower(lit))))
			}
		}
	}
	return &Val{T: o.Type(), Arr: arr, Len: intLit(int64(len(info))), Nil: "false"}
}
