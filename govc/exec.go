package main

// Statement execution (path-splitting symbolic execution with loop cut-points).

import (
	"os"
	"fmt"
	"go/ast"
	"go/token"
	"go/types"
	"sort"
	"strings"
)

func (u *Unit) posRank(p token.Pos) int {
	if u.allPos == nil {
		seen := map[token.Pos]bool{}
		ast.Inspect(u.body, func(n ast.Node) bool {
			if n != nil {
				if _, ok := n.(ast.Expr); ok && !seen[n.Pos()] {
					seen[n.Pos()] = true
					u.allPos = append(u.allPos, n.Pos())
				}
			}
			return true
		})
		sort.Slice(u.allPos, func(i, j int) bool { return u.allPos[i] < u.allPos[j] })
	}
	return sort.Search(len(u.allPos), func(i int) bool { return u.allPos[i] >= p }) + 1
}

func (u *Unit) execBlock(st *State, stmts []ast.Stmt) []*State {
	cur := []*State{st}
	for _, s := range stmts {
		var next []*State
		for _, c := range cur {
			if c.ctl != "" {
				next = append(next, c)
				continue
			}
			next = append(next, u.exec(c, s)...)
		}
		cur = next
		if len(cur) > u.pathCap {
			u.tooManyPaths = true
			return cur[:1]
		}
	}
	return cur
}

func (u *Unit) exec(st *State, s ast.Stmt) []*State {
	switch x := s.(type) {
	case *ast.BlockStmt:
		return u.execBlock(st, x.List)
	case *ast.ExprStmt:
		if call, ok := ast.Unparen(x.X).(*ast.CallExpr); ok {
			if outs, handled := u.stmtCall(st, call, nil); handled {
				return outs
			}
		}
		u.eval(st, x.X)
		return []*State{st}
	case *ast.AssignStmt:
		return u.execAssign(st, x)
	case *ast.DeclStmt:
		gd := x.Decl.(*ast.GenDecl)
		for _, sp := range gd.Specs {
			vs, ok := sp.(*ast.ValueSpec)
			if !ok {
				continue
			}
			if len(vs.Values) == 1 && len(vs.Names) > 1 {
				v := u.eval(st, vs.Values[0])
				for i, n := range vs.Names {
					if obj, ok := u.info.Defs[n].(*types.Var); ok && i < len(v.Tuple) {
						st.vars[obj] = u.convertForAssign(st, v.Tuple[i], obj.Type())
					}
				}
				continue
			}
			for i, n := range vs.Names {
				obj, _ := u.info.Defs[n].(*types.Var)
				if obj == nil {
					if i < len(vs.Values) {
						u.eval(st, vs.Values[i])
					}
					continue
				}
				if i < len(vs.Values) {
					st.vars[obj] = u.convertForAssign(st, u.eval(st, vs.Values[i]), obj.Type())
				} else {
					st.vars[obj] = u.zeroVal(st, obj.Type())
				}
			}
		}
		return []*State{st}
	case *ast.IncDecStmt:
		v := u.eval(st, x.X)
		op := "+"
		if x.Tok == token.DEC {
			op = "-"
		}
		nv := u.arith(st, op, v, &Val{T: v.T, S: "1"}, v.T, x)
		u.assign(st, x.X, nv)
		return []*State{st}
	case *ast.IfStmt:
		return u.execIf(st, x)
	case *ast.ForStmt:
		return u.execFor(st, x, "")
	case *ast.RangeStmt:
		return u.execRange(st, x, "")
	case *ast.LabeledStmt:
		switch inner := x.Stmt.(type) {
		case *ast.ForStmt:
			return u.execFor(st, inner, x.Label.Name)
		case *ast.RangeStmt:
			return u.execRange(st, inner, x.Label.Name)
		}
		outs := u.exec(st, x.Stmt)
		for _, o := range outs {
			if o.ctl == "break" && o.label == x.Label.Name {
				o.ctl, o.label = "", ""
			}
		}
		return outs
	case *ast.SwitchStmt:
		return u.execSwitch(st, x)
	case *ast.TypeSwitchStmt:
		return u.execTypeSwitch(st, x)
	case *ast.ReturnStmt:
		return u.execReturn(st, x)
	case *ast.BranchStmt:
		switch x.Tok {
		case token.BREAK:
			st.ctl = "break"
		case token.CONTINUE:
			st.ctl = "continue"
		case token.GOTO:
			u.note("goto: outside the subset")
			u.outside = "goto"
			st.ctl = "end"
		case token.FALLTHROUGH:
			st.ctl = "fallthrough"
		}
		if x.Label != nil {
			st.label = x.Label.Name
		}
		return []*State{st}
	case *ast.DeferStmt:
		call := x.Call
		// arguments are evaluated now, the call runs at exit
		if _, isLit := ast.Unparen(call.Fun).(*ast.FuncLit); !isLit {
			// evaluate receiver/args now and freeze them
			frozen := u.freezeCall(st, call)
			st.defers = append(st.defers, deferred{call: func(s2 *State) []*State {
				return u.runFrozen(s2, call, frozen)
			}})
		} else {
			st.defers = append(st.defers, deferred{call: func(s2 *State) []*State {
				if outs, handled := u.stmtCall(s2, call, nil); handled {
					return outs
				}
				u.eval(s2, call)
				return []*State{s2}
			}})
		}
		return []*State{st}
	case *ast.GoStmt:
		// spawned goroutine: arguments evaluated, a ghost spawn event recorded, body not executed here
		for _, a := range x.Call.Args {
			u.eval(st, a)
		}
		u.ghostSpawn(st, x)
		return []*State{st}
	case *ast.SelectStmt:
		return u.execSelect(st, x)
	case *ast.SendStmt:
		u.eval(st, x.Chan)
		u.eval(st, x.Value)
		return []*State{st}
	case *ast.EmptyStmt:
		return []*State{st}
	}
	u.note(fmt.Sprintf("unmodelled statement %T", s))
	u.outside = fmt.Sprintf("%T", s)
	return []*State{st}
}

// ---------------------------------------------------------------------------

func (u *Unit) execIf(st *State, x *ast.IfStmt) []*State {
	cur := []*State{st}
	if x.Init != nil {
		cur = u.exec(st, x.Init)
	}
	var out []*State
	for _, c := range cur {
		if c.ctl != "" {
			out = append(out, c)
			continue
		}
		cond := u.eval(c, x.Cond)
		if cond.S == "true" {
			out = append(out, u.exec(c, x.Body)...)
			continue
		}
		if cond.S == "false" {
			if x.Else != nil {
				out = append(out, u.exec(c, x.Else)...)
			} else {
				out = append(out, c)
			}
			continue
		}
		if x.Else == nil && u.simpleBody(x.Body.List) && os.Getenv("GOVC_NO_MERGE") == "" {
			// `if c { plain assignments }`: executed under the guard c instead of forking the path (the assignments
			// become conditional updates); keeps functions that are long chains of optional-field copies tractable
			c.guard = append(c.guard, cond.S)
			ok := true
			for _, s0 := range x.Body.List {
				outs := u.exec(c, s0)
				if len(outs) != 1 || outs[0] != c || c.ctl != "" {
					ok = false
					break
				}
			}
			c.guard = c.guard[:len(c.guard)-1]
			if ok {
				out = append(out, c)
				continue
			}
			u.outside = "guarded execution of a simple if body forked at " + u.pos(x)
			out = append(out, c)
			continue
		}
		t := c.clone()
		t.assume(cond.S)
		t.trace = append(t.trace, u.pos(x)+" if "+exprString(x.Cond)+" = true")
		out = append(out, u.exec(t, x.Body)...)
		c.assume(tNot(cond.S))
		c.trace = append(c.trace, u.pos(x)+" if "+exprString(x.Cond)+" = false")
		if x.Else != nil {
			out = append(out, u.exec(c, x.Else)...)
		} else {
			out = append(out, c)
		}
	}
	return out
}

// simpleBody: only assignments / inc-dec (and nested ifs of the same kind), with expressions free of calls other than
// builtins and conversions -- nothing that forks, returns, or has effects beyond plain stores.
func (u *Unit) simpleBody(list []ast.Stmt) bool {
	if len(list) == 0 {
		return false
	}
	for _, s0 := range list {
		switch s := s0.(type) {
		case *ast.AssignStmt:
			for _, e := range append(append([]ast.Expr{}, s.Lhs...), s.Rhs...) {
				if !u.callFree(e) {
					return false
				}
			}
			for _, l := range s.Lhs {
				// stores into maps and through index expressions stay on the forking path
				if _, isIdx := ast.Unparen(l).(*ast.IndexExpr); isIdx {
					return false
				}
			}
		case *ast.IncDecStmt:
			if !u.callFree(s.X) {
				return false
			}
		case *ast.IfStmt:
			if s.Init != nil || s.Else != nil || !u.callFree(s.Cond) || !u.simpleBody(s.Body.List) {
				return false
			}
		default:
			return false
		}
	}
	return true
}

func (u *Unit) callFree(e ast.Expr) bool {
	ok := true
	ast.Inspect(e, func(n ast.Node) bool {
		switch c := n.(type) {
		case *ast.FuncLit:
			ok = false
			return false
		case *ast.CallExpr:
			if tv, has := u.info.Types[c.Fun]; has && tv.IsType() {
				return true // conversion
			}
			if id, isId := ast.Unparen(c.Fun).(*ast.Ident); isId {
				if _, isB := u.info.Uses[id].(*types.Builtin); isB && (id.Name == "len" || id.Name == "cap") {
					return true
				}
			}
			ok = false
			return false
		case *ast.UnaryExpr:
			if c.Op == token.ARROW || c.Op == token.AND {
				ok = false
				return false
			}
		}
		return true
	})
	return ok
}

func (u *Unit) execSwitch(st *State, x *ast.SwitchStmt) []*State {
	cur := []*State{st}
	if x.Init != nil {
		cur = u.exec(st, x.Init)
	}
	var out []*State
	for _, c := range cur {
		if c.ctl != "" {
			out = append(out, c)
			continue
		}
		var tag *Val
		if x.Tag != nil {
			tag = u.eval(c, x.Tag)
		}
		rest := c // state in which no earlier case matched
		var defBody *ast.CaseClause
		clauses := x.Body.List
		var pendingFall []*State
		for ci, cl := range clauses {
			cc := cl.(*ast.CaseClause)
			if cc.List == nil {
				defBody = cc
				// a fallthrough into default
				if len(pendingFall) > 0 {
					outs := u.runCase(pendingFall, cc, &pendingFall)
					out = append(out, outs...)
				}
				continue
			}
			var conds []string
			for _, e := range cc.List {
				ev := u.eval(rest, e)
				if tag != nil {
					conds = append(conds, u.compare(rest, token.EQL, tag, ev, e).S)
				} else {
					conds = append(conds, ev.S)
				}
			}
			match := tOr(conds...)
			t := rest.clone()
			t.assume(match)
			t.trace = append(t.trace, fmt.Sprintf("%s case %d", u.pos(cc), ci+1))
			rest.assume(tNot(match))
			enter := append(pendingFall, t)
			pendingFall = nil
			out = append(out, u.runCase(enter, cc, &pendingFall)...)
		}
		if defBody != nil {
			rest.trace = append(rest.trace, u.pos(defBody)+" default")
			var pf []*State
			out = append(out, u.runCase([]*State{rest}, defBody, &pf)...)
		} else {
			out = append(out, rest)
		}
	}
	return out
}

func (u *Unit) runCase(enter []*State, cc *ast.CaseClause, fall *[]*State) []*State {
	var out []*State
	for _, t := range enter {
		for _, o := range u.execBlock(t, cc.Body) {
			switch {
			case o.ctl == "break" && o.label == "":
				o.ctl = ""
				out = append(out, o)
			case o.ctl == "fallthrough":
				o.ctl = ""
				*fall = append(*fall, o)
			default:
				out = append(out, o)
			}
		}
	}
	return out
}

func (u *Unit) execTypeSwitch(st *State, x *ast.TypeSwitchStmt) []*State {
	cur := []*State{st}
	if x.Init != nil {
		cur = u.exec(st, x.Init)
	}
	var out []*State
	for _, c := range cur {
		if c.ctl != "" {
			out = append(out, c)
			continue
		}
		var ta *ast.TypeAssertExpr
		switch a := x.Assign.(type) {
		case *ast.ExprStmt:
			ta = ast.Unparen(a.X).(*ast.TypeAssertExpr)
		case *ast.AssignStmt:
			ta = ast.Unparen(a.Rhs[0]).(*ast.TypeAssertExpr)
		}
		v := u.eval(c, ta.X)
		rest := c
		var defBody *ast.CaseClause
		for ci, cl := range x.Body.List {
			cc := cl.(*ast.CaseClause)
			if cc.List == nil {
				defBody = cc
				continue
			}
			var conds []string
			var single types.Type
			for _, e := range cc.List {
				if id, ok := e.(*ast.Ident); ok && id.Name == "nil" {
					conds = append(conds, tEq(v.S, "0"))
					continue
				}
				t := u.typeOf(e)
				single = t
				if isIface(t) {
					fn := u.d.fun("implements!"+types.TypeString(t, nil), []string{SInt}, SBool)
					conds = append(conds, tAnd(app("distinct", v.S, "0"), app(fn, app(u.typeofFn(), v.S))))
				} else {
					conds = append(conds, tAnd(app("distinct", v.S, "0"), tEq(app(u.typeofFn(), v.S), u.typeTag(t))))
				}
			}
			match := tOr(conds...)
			t := rest.clone()
			t.assume(match)
			t.trace = append(t.trace, fmt.Sprintf("%s type case %d", u.pos(cc), ci+1))
			rest.assume(tNot(match))
			if obj, ok := u.info.Implicits[cc].(*types.Var); ok {
				if len(cc.List) == 1 && single != nil && !isIface(single) && kindOf(single) != kRef {
					t.vars[obj] = u.fromScalar(t, app(u.unboxFn(sortOf(single)), v.S), single)
				} else {
					t.vars[obj] = &Val{T: obj.Type(), S: v.S}
				}
			}
			var pf []*State
			out = append(out, u.runCase([]*State{t}, cc, &pf)...)
		}
		if defBody != nil {
			if obj, ok := u.info.Implicits[defBody].(*types.Var); ok {
				rest.vars[obj] = &Val{T: obj.Type(), S: v.S}
			}
			var pf []*State
			out = append(out, u.runCase([]*State{rest}, defBody, &pf)...)
		} else {
			out = append(out, rest)
		}
	}
	return out
}

func (u *Unit) execSelect(st *State, x *ast.SelectStmt) []*State {
	var out []*State
	for i, cl := range x.Body.List {
		cc := cl.(*ast.CommClause)
		t := st.clone()
		t.trace = append(t.trace, fmt.Sprintf("%s select case %d", u.pos(cc), i+1))
		if cc.Comm != nil {
			for _, o := range u.exec(t, cc.Comm) {
				if o.ctl != "" {
					out = append(out, o)
					continue
				}
				for _, o2 := range u.execBlock(o, cc.Body) {
					if o2.ctl == "break" && o2.label == "" {
						o2.ctl = ""
					}
					out = append(out, o2)
				}
			}
			continue
		}
		for _, o2 := range u.execBlock(t, cc.Body) {
			if o2.ctl == "break" && o2.label == "" {
				o2.ctl = ""
			}
			out = append(out, o2)
		}
	}
	if len(x.Body.List) == 0 {
		st.ctl = "end" // select {} blocks for ever
		return []*State{st}
	}
	return out
}

// ---------------------------------------------------------------------------
// assignment

func (u *Unit) execAssign(st *State, x *ast.AssignStmt) []*State {
	if x.Tok != token.ASSIGN && x.Tok != token.DEFINE {
		// op=
		op := strings.TrimSuffix(x.Tok.String(), "=")
		l := u.eval(st, x.Lhs[0])
		r := u.eval(st, x.Rhs[0])
		u.assign(st, x.Lhs[0], u.arith(st, op, l, r, l.T, x))
		return []*State{st}
	}
	if len(x.Lhs) > 1 && len(x.Rhs) == 1 {
		rhs := ast.Unparen(x.Rhs[0])
		switch r := rhs.(type) {
		case *ast.CallExpr:
			if outs, handled := u.stmtCall(st, r, x.Lhs); handled {
				return outs
			}
			v := u.call(st, r)
			u.assignTuple(st, x.Lhs, v)
			return []*State{st}
		case *ast.IndexExpr:
			base := u.eval(st, r.X)
			if m, ok := types.Unalias(base.T).Underlying().(*types.Map); ok {
				k := u.convertForAssign(st, u.eval(st, r.Index), m.Key())
				v, okT := u.mapLoad(st, base.T, base.S, u.scalar(st, k))
				u.assign(st, x.Lhs[0], v)
				u.assign(st, x.Lhs[1], &Val{T: types.Typ[types.Bool], S: okT})
				return []*State{st}
			}
		case *ast.TypeAssertExpr:
			v, okT := u.evalTypeAssert(st, r, true)
			u.assign(st, x.Lhs[0], v)
			u.assign(st, x.Lhs[1], &Val{T: types.Typ[types.Bool], S: okT})
			return []*State{st}
		case *ast.UnaryExpr: // v, ok := <-ch
			u.eval(st, r.X)
			t := u.typeOf(r)
			if tp, ok := t.(*types.Tuple); ok {
				u.assign(st, x.Lhs[0], u.freshVal(st, tp.At(0).Type(), "recv"))
				u.assign(st, x.Lhs[1], u.freshVal(st, types.Typ[types.Bool], "recvok"))
				return []*State{st}
			}
		}
		u.note("unmodelled multi-assignment")
		for _, l := range x.Lhs {
			u.assign(st, l, u.freshVal(st, u.lhsType(l), "multi"))
		}
		return []*State{st}
	}
	if len(x.Lhs) == 1 && len(x.Rhs) == 1 {
		if call, ok := ast.Unparen(x.Rhs[0]).(*ast.CallExpr); ok {
			if outs, handled := u.stmtCall(st, call, x.Lhs); handled {
				return outs
			}
		}
	}
	// parallel assignment: evaluate all RHS first
	vals := make([]*Val, len(x.Rhs))
	for i, r := range x.Rhs {
		vals[i] = u.eval(st, r)
	}
	for i, l := range x.Lhs {
		u.assign(st, l, vals[i])
	}
	return []*State{st}
}

func (u *Unit) lhsType(l ast.Expr) types.Type {
	if id, ok := l.(*ast.Ident); ok {
		if obj := u.info.Defs[id]; obj != nil {
			return obj.Type()
		}
		if obj := u.info.Uses[id]; obj != nil {
			return obj.Type()
		}
	}
	return u.typeOf(l)
}

func (u *Unit) assignTuple(st *State, lhs []ast.Expr, v *Val) {
	for i, l := range lhs {
		if v != nil && i < len(v.Tuple) {
			u.assign(st, l, v.Tuple[i])
		} else {
			u.assign(st, l, u.freshVal(st, u.lhsType(l), "tup"))
		}
	}
}

func (u *Unit) assign(st *State, lhs ast.Expr, v *Val) {
	lhs = ast.Unparen(lhs)
	switch l := lhs.(type) {
	case *ast.Ident:
		if l.Name == "_" {
			return
		}
		obj, _ := u.info.Defs[l].(*types.Var)
		if obj == nil {
			obj, _ = u.info.Uses[l].(*types.Var)
		}
		if obj == nil {
			return
		}
		v = u.convertForAssign(st, v, obj.Type())
		if obj.Pkg() != nil && obj.Parent() == obj.Pkg().Scope() {
			name := "V!" + obj.Pkg().Path() + "." + obj.Name()
			srt := sortOf(obj.Type())
			h := u.heapGet(st, name, srt)
			u.heapSet(st, name, srt, app("store", h, "0", u.scalar(st, v)))
			return
		}
		if r, esc := st.escaped[obj]; esc {
			u.storeStruct(st, r, types.NewPointer(obj.Type()), v)
			return
		}
		g := tAnd(st.guard...)
		if g != "true" {
			if old, ok := st.vars[obj]; ok {
				v = u.iteVal(st, g, v, old)
			}
		}
		nv := *v
		nv.T = obj.Type()
		st.vars[obj] = &nv
	case *ast.SelectorExpr:
		sel, ok := u.info.Selections[l]
		if !ok {
			// package-level var via qualified identifier
			u.assign(st, l.Sel, v)
			return
		}
		base := u.eval(st, l.X)
		path := sel.Index()
		// walk to the parent of the last field
		cur := base
		var structChain []*Val
		var nameChain []string
		for i, idx := range path {
			s := structOf(cur.T)
			f := s.Field(idx)
			_, isPtr := types.Unalias(cur.T).Underlying().(*types.Pointer)
			if i == len(path)-1 {
				v = u.convertForAssign(st, v, f.Type())
				if isPtr {
					u.derefCheck(st, cur.S, l)
					u.guardedWrite(st, cur, f.Name(), l)
					u.storeField(st, cur.S, cur.T, f.Name(), v)
					return
				}
				// value struct: rebuild and assign back up
				nv := u.setField(st, cur, f.Name(), v)
				for j := len(structChain) - 1; j >= 0; j-- {
					nv = u.setField(st, structChain[j], nameChain[j], nv)
				}
				if len(structChain) > 0 || true {
					u.assignBase(st, l.X, path, nv, structChain, base)
				}
				return
			}
			if isPtr {
				u.derefCheck(st, cur.S, l)
				cur = u.loadField(st, cur.S, cur.T, f.Name())
				structChain, nameChain = nil, nil
				base = cur
			} else {
				structChain = append(structChain, cur)
				nameChain = append(nameChain, f.Name())
				cur = u.field(st, cur, f.Name())
			}
		}
	case *ast.IndexExpr:
		base := u.eval(st, l.X)
		switch t := types.Unalias(base.T).Underlying().(type) {
		case *types.Map:
			k := u.convertForAssign(st, u.eval(st, l.Index), t.Key())
			if u.safety {
				u.safetyObl(st, "nilmap", l, app("distinct", base.S, "0"))
			}
			st.assume(app("distinct", base.S, "0"))
			u.mapStore(st, base.T, base.S, u.scalar(st, k), u.convertForAssign(st, v, t.Elem()))
			return
		case *types.Slice, *types.Array:
			i := u.eval(st, l.Index)
			u.boundsCheck(st, i.S, base.Len, l)
			nv := &Val{T: base.T, Len: base.Len, Nil: base.Nil}
			nv.Arr = app("store", base.Arr, i.S, u.scalar(st, u.convertForAssign(st, v, elemType(base.T))))
			u.sliceWrites = true
			u.assign(st, l.X, nv)
			return
		}
		u.note("unmodelled index assignment")
	case *ast.StarExpr:
		p := u.eval(st, l.X)
		u.derefCheck(st, p.S, l)
		u.storeThrough(st, p, v)
	default:
		u.note(fmt.Sprintf("unmodelled assignment target %T", lhs))
	}
}

// assignBase writes a rebuilt struct value back to where the selector chain started.
func (u *Unit) assignBase(st *State, x ast.Expr, path []int, nv *Val, chain []*Val, base *Val) {
	// x is the expression whose (value-typed) struct was updated; find the root lvalue:
	// if the path started with value structs, the root is x itself.
	if _, isPtr := types.Unalias(u.typeOf(x)).Underlying().(*types.Pointer); isPtr {
		// the chain started after a pointer hop inside path: store whole struct through that pointer
		u.storeStruct(st, base.S, base.T, nv)
		return
	}
	if kindOf(base.T) == kStruct && base != nil {
		u.assign(st, x, nv)
		return
	}
	u.storeStruct(st, base.S, base.T, nv)
}

func (u *Unit) iteVal(st *State, g string, a, b *Val) *Val {
	k := kindOf(a.T)
	switch k {
	case kSlice, kArray:
		if a.Arr != "" && b.Arr != "" {
			return &Val{T: a.T, Arr: tIte(g, a.Arr, b.Arr), Len: tIte(g, a.Len, b.Len), Nil: tIte(g, a.Nil, b.Nil)}
		}
	case kTuple:
		return a
	}
	return &Val{T: a.T, S: tIte(g, u.scalar(st, a), u.scalar(st, b))}
}

// ---------------------------------------------------------------------------
// return

func (u *Unit) execReturn(st *State, x *ast.ReturnStmt) []*State {
	if u.inlineDepth > 0 {
		// return inside an inlined closure body
		var vals []*Val
		for _, r := range x.Results {
			vals = append(vals, u.eval(st, r))
		}
		if len(vals) == 1 && len(vals[0].Tuple) > 0 {
			vals = vals[0].Tuple
		}
		st.rets = vals
		st.ctl = "return"
		return []*State{st}
	}
	st.retSite = u.retOrd[x]
	// `at return N assert`: checked in the state in which the function returns, i.e. after the result expressions
	// (including a call in `return f(...)`) have been evaluated
	if len(x.Results) == 0 {
		// named results
		st.rets = nil
		for _, rv := range u.resultVars {
			if rv != nil {
				st.rets = append(st.rets, st.vars[rv])
			}
		}
	} else if len(x.Results) == 1 && u.sig.Results().Len() > 1 {
		// return f() forwarding a tuple
		if call, ok := ast.Unparen(x.Results[0]).(*ast.CallExpr); ok {
			if outs, handled := u.stmtCall(st, call, nil); handled {
				for _, o := range outs {
					if o.ctl == "" {
						o.ctl = "return"
						o.retSite = u.retOrd[x]
						if len(o.rets) == 1 && len(o.rets[0].Tuple) > 0 {
							o.rets = o.rets[0].Tuple
						}
						u.returnAsserts(o, x)
					}
				}
				return outs
			}
		}
		v := u.eval(st, x.Results[0])
		st.rets = v.Tuple
	} else {
		if len(x.Results) == 1 {
			if call, ok := ast.Unparen(x.Results[0]).(*ast.CallExpr); ok {
				if outs, handled := u.stmtCall(st, call, nil); handled {
					for _, o := range outs {
						if o.ctl == "" {
							o.ctl = "return"
							o.retSite = u.retOrd[x]
							for i := range o.rets {
								o.rets[i] = u.convertForAssign(o, o.rets[i], u.sig.Results().At(i).Type())
							}
							u.returnAsserts(o, x)
						}
					}
					return outs
				}
			}
		}
		st.rets = nil
		for i, r := range x.Results {
			rv := *u.convertForAssign(st, u.eval(st, r), u.sig.Results().At(i).Type())
			rv.T = u.sig.Results().At(i).Type()
			st.rets = append(st.rets, &rv)
		}
	}
	u.returnAsserts(st, x)
	st.trace = append(st.trace, fmt.Sprintf("%s return.%d", u.pos(x), st.retSite))
	st.ctl = "return"
	return []*State{st}
}

// ---------------------------------------------------------------------------
// loops

// havocEnt: a loop-head havoc of one heap array that came with an inferred frame (see havocLoopState).
type havocEnt struct {
	before string
	idxs   []string
}

type loopHead struct {
	st *State
}

// modifiedBy runs body once in quiet mode from st and reports which variables / heap arrays / ghost vars change.
func (u *Unit) modifiedBy(st *State, run func(s *State) []*State) (vars map[types.Object]bool, heaps map[string]bool, gvars map[string]bool, wm bool) {
	u.quiet++
	serial0 := u.allocSerial
	declN0 := u.d.n
	u.fixedIdx = map[string][]string{}
	probe := st.clone()
	outs := run(probe)
	u.quiet--
	u.freshOnly = map[string]bool{}
	vars, heaps, gvars = map[types.Object]bool{}, map[string]bool{}, map[string]bool{}
	for _, o := range outs {
		if o.leftLoop || o.ctl != "" {
			// does not flow back to the loop head: its effects are not part of the head state
			continue
		}
		for k, v := range o.vars {
			if ov, ok := st.vars[k]; ok && !sameVal(ov, v) {
				vars[k] = true
			}
		}
		for k, v := range o.heap {
			ov, ok := st.heap[k]
			if !ok {
				ov = u.heapDefault(st, k, u.eng.heapSorts[k])
			}
			if ov != v {
				heaps[k] = true
				// Which indices does the chain of stores from the head value to v touch? Objects allocated in this
				// iteration, and/or index terms that are fixed across iterations (built from pre-loop values only).
				okFresh := true
				cur := v
				var fixed []string
				for steps := 0; cur != ov; steps++ {
					ent, found := u.storeLog[cur]
					if !found {
						// an inner loop havocked this array with an inferred frame: it behaves like stores at the
						// inner loop's fixed indices (and at objects allocated inside it)
						if he, ok := u.havocLog[cur]; ok && steps <= 10000 {
							bad := false
							for _, idx := range he.idxs {
								if u.allocN[idx] <= serial0 {
									if hasFreshConst(idx, declN0) {
										bad = true
										break
									}
									fixed = append(fixed, idx)
								}
							}
							if !bad {
								cur = he.before
								continue
							}
						}
					}
					if !found || steps > 10000 {
						okFresh = false
						break
					}
					if u.allocN[ent[1]] <= serial0 {
						if hasFreshConst(ent[1], declN0) {
							okFresh = false
							break
						}
						fixed = append(fixed, ent[1])
					}
					cur = ent[0]
				}
				if prev, seen := u.freshOnly[k]; seen {
					u.freshOnly[k] = prev && okFresh
				} else {
					u.freshOnly[k] = okFresh
				}
				u.fixedIdx[k] = append(u.fixedIdx[k], fixed...)
			}
		}
		if o.epoch != st.epoch {
			heaps["*"] = true
		}
		for k, v := range o.gvars {
			if ov, ok := st.gvars[k]; !ok || !sameVal(ov, v) {
				gvars[k] = true
			}
		}
		if o.wm != st.wm {
			wm = true
		}
	}
	// a "fixed" index term must not mention anything the loop itself changes
	for k, idxs := range u.fixedIdx {
		for _, idx := range idxs {
			bad := false
			for h := range heaps {
				if cur, ok := st.heap[h]; ok && strings.Contains(idx, cur) {
					bad = true
				}
				if strings.Contains(idx, quoteSym(h+"@")) || strings.Contains(idx, h+"@") {
					bad = true
				}
			}
			for ov := range vars {
				if val := st.vars[ov]; val != nil && val.S != "" && !isLitTerm(val.S) && strings.Contains(idx, val.S) {
					bad = true
				}
			}
			if bad {
				u.freshOnly[k] = false
			}
		}
	}
	return
}

func sameVal(a, b *Val) bool {
	if a == b {
		return true
	}
	if a == nil || b == nil {
		return false
	}
	if a.S != b.S || a.Arr != b.Arr || a.Len != b.Len || a.Nil != b.Nil || len(a.Fields) != len(b.Fields) || len(a.Tuple) != len(b.Tuple) {
		return false
	}
	for k, v := range a.Fields {
		if !sameVal(v, b.Fields[k]) {
			return false
		}
	}
	for i := range a.Tuple {
		if !sameVal(a.Tuple[i], b.Tuple[i]) {
			return false
		}
	}
	return true
}

func (u *Unit) havocLoopState(st *State, vars map[types.Object]bool, heaps map[string]bool, gvars map[string]bool, wm bool) {
	wmHead := st.wm
	if wm {
		st.wm = u.bumpWM(st)
	}
	var objs []types.Object
	for o := range vars {
		objs = append(objs, o)
	}
	sort.Slice(objs, func(i, j int) bool { return objs[i].Pos() < objs[j].Pos() })
	for _, o := range objs {
		st.vars[o] = u.freshVal(st, o.Type(), o.Name())
		if kindOf(o.Type()) == kRef {
			st.assumeFact(app("<=", st.vars[o].S, st.wm))
		}
	}
	if heaps["*"] {
		u.havocAllHeap(st, "loop body havocs the heap")
	} else {
		var hs []string
		for h := range heaps {
			hs = append(hs, h)
		}
		sort.Strings(hs)
		for _, h := range hs {
			before := u.heapGet(st, h, u.eng.heapSorts[h])
			u.heapHavoc(st, h)
			if u.freshOnly[h] {
				// inferred frame: the loop body writes this array only at objects it allocates itself and at
				// index terms that are the same in every iteration; every other object that existed at the loop
				// head keeps its value.
				bvCounter++
				r := fmt.Sprintf("lf!%d", bvCounter)
				conds := []string{app("<=", r, wmHead)}
				seen := map[string]bool{}
				for _, idx := range u.fixedIdx[h] {
					if !seen[idx] {
						seen[idx] = true
						conds = append(conds, app("distinct", r, idx))
					}
				}
				st.assumeFact(fmt.Sprintf("(forall ((%s Int)) (! (=> %s (= (select %s %s) (select %s %s))) :pattern ((select %s %s))))", r, tAnd(conds...), st.heap[h], r, before, r, st.heap[h], r))
				if u.havocLog == nil {
					u.havocLog = map[string]havocEnt{}
				}
				var idxs []string
				for idx := range seen {
					idxs = append(idxs, idx)
				}
				sort.Strings(idxs)
				u.havocLog[st.heap[h]] = havocEnt{before: before, idxs: idxs}
			}
		}
	}
	var gs []string
	for g := range gvars {
		gs = append(gs, g)
	}
	sort.Strings(gs)
	for _, g := range gs {
		old := st.gvars[g]
		st.gvars[g] = u.freshVal(st, old.T, "g."+g)
	}
}

func (u *Unit) loopSpec(n int) *LoopSpec {
	if u.ct != nil {
		if ls := u.ct.Loops[n]; ls != nil {
			u.loopsSeen[n] = true
			return ls
		}
	}
	return &LoopSpec{}
}

func (u *Unit) checkInvs(st *State, n int, ls *LoopSpec, phase string, scopePos token.Pos) {
	if phase == "init" {
		// snapshot for loopentry(): the state in which the loop is first reached
		snap := st.clone()
		if st.loopEntry == nil {
			st.loopEntry = map[int]*State{}
		}
		st.loopEntry[n] = snap
	}
	for _, inv := range ls.Invs {
		v, q := u.evalSpecBool(st, inv.E, u.specEnvLocal(st, scopePos, n), false)
		u.oblige(st, fmt.Sprintf("loop%d.inv.%d.%s", n, inv.N, phase), "inv."+phase, inv.Text, v, q)
	}
}

func (u *Unit) assumeInvs(st *State, n int, ls *LoopSpec, scopePos token.Pos) {
	for _, inv := range ls.Invs {
		v, _ := u.evalSpecBool(st, inv.E, u.specEnvLocal(st, scopePos, n), true)
		st.assume(v)
	}
	if len(ls.Invs) > 0 {
		u.cover(st, fmt.Sprintf("loop%d.inv-consistent", n), "loop invariants are satisfiable at the loop head")
	}
}

// finishLoopBody filters the states coming out of a loop body.
func splitLoopOutcomes(outs []*State, label string) (cont, brk, other []*State) {
	for _, o := range outs {
		switch {
		case o.ctl == "" || (o.ctl == "continue" && (o.label == "" || o.label == label)):
			o.ctl, o.label = "", ""
			cont = append(cont, o)
		case o.ctl == "break" && (o.label == "" || o.label == label):
			o.ctl, o.label = "", ""
			o.leftLoop = true
			brk = append(brk, o)
		default:
			other = append(other, o)
		}
	}
	return
}

func clearLeft(states []*State) []*State {
	for _, s := range states {
		s.leftLoop = false
	}
	return states
}

func (u *Unit) execFor(st *State, x *ast.ForStmt, label string) []*State {
	return clearLeft(u.execFor1(st, x, label))
}

func (u *Unit) execRange(st *State, x *ast.RangeStmt, label string) []*State {
	return clearLeft(u.execRange1(st, x, label))
}

func (u *Unit) execFor1(st *State, x *ast.ForStmt, label string) []*State {
	n := u.loopOrd[x]
	ls := u.loopSpec(n)
	cur := []*State{st}
	if x.Init != nil {
		cur = u.exec(st, x.Init)
	}
	var out []*State
	for _, c := range cur {
		if c.ctl != "" {
			out = append(out, c)
			continue
		}
		if ls.Unroll > 0 {
			out = append(out, u.unrollFor(c, x, label, ls.Unroll)...)
			continue
		}
		iter := func(s *State) []*State {
			if x.Cond != nil {
				cv := u.eval(s, x.Cond)
				s.assume(cv.S)
			}
			outs := u.exec(s, x.Body)
			cont, brk, other := splitLoopOutcomes(outs, label)
			var res []*State
			for _, o := range cont {
				if x.Post != nil {
					res = append(res, u.exec(o, x.Post)...)
				} else {
					res = append(res, o)
				}
			}
			res = append(res, brk...)
			return append(res, other...)
		}
		vars, heaps, gvars, wm := u.modifiedBy(c, iter)
		u.checkInvs(c, n, ls, "init", x.Body.Pos())
		u.havocLoopState(c, vars, heaps, gvars, wm)
		u.assumeInvs(c, n, ls, x.Body.Pos())
		// exit path
		exit := c.clone()
		// body path
		var measure0 string
		if x.Cond != nil {
			cv := u.eval(c, x.Cond)
			c.assume(cv.S)
			cvE := u.eval(exit, x.Cond)
			exit.assume(tNot(cvE.S))
			exit.trace = append(exit.trace, fmt.Sprintf("%s loop%d exit", u.pos(x), n))
			out = append(out, exit)
		}
		if ls.Decreases != nil {
			m, _ := u.evalSpec(c, ls.Decreases.E, u.specEnvLocal(c, x.Body.Pos(), n), false)
			measure0 = m.S
			u.oblige(c, fmt.Sprintf("loop%d.decreases.bounded", n), "decreases", ls.Decreases.Text, app(">=", measure0, "0"), false)
		}
		c.trace = append(c.trace, fmt.Sprintf("%s loop%d body", u.pos(x), n))
		outs := u.exec(c, x.Body)
		cont, brk, other := splitLoopOutcomes(outs, label)
		for _, o := range cont {
			posts := []*State{o}
			if x.Post != nil {
				posts = u.exec(o, x.Post)
			}
			for _, p := range posts {
				u.checkInvs(p, n, ls, "preserve", x.Body.Pos())
				if ls.Decreases != nil {
					m, _ := u.evalSpec(p, ls.Decreases.E, u.specEnvLocal(p, x.Body.Pos(), n), false)
					u.oblige(p, fmt.Sprintf("loop%d.decreases", n), "decreases", ls.Decreases.Text, app("<", m.S, measure0), false)
				}
				// path ends (cut point)
			}
		}
		out = append(out, brk...)
		out = append(out, other...)
	}
	return out
}

func (u *Unit) unrollFor(c *State, x *ast.ForStmt, label string, k int) []*State {
	prev := u.bounded
	u.bounded = fmt.Sprintf("unroll(%d)", k)
	defer func() { u.bounded = prev }()
	var out []*State
	cur := []*State{c}
	for i := 0; i <= k; i++ {
		var next []*State
		for _, s := range cur {
			if x.Cond != nil {
				exit := s.clone()
				cv := u.eval(exit, x.Cond)
				exit.assume(tNot(cv.S))
				out = append(out, exit)
				cv2 := u.eval(s, x.Cond)
				s.assume(cv2.S)
			}
			if i == k {
				continue // unwinding assumption: no further iteration
			}
			outs := u.exec(s, x.Body)
			cont, brk, other := splitLoopOutcomes(outs, label)
			for _, o := range cont {
				if x.Post != nil {
					next = append(next, u.exec(o, x.Post)...)
				} else {
					next = append(next, o)
				}
			}
			out = append(out, brk...)
			out = append(out, other...)
		}
		cur = next
	}
	return out
}

func (u *Unit) execRange1(st *State, x *ast.RangeStmt, label string) []*State {
	n := u.loopOrd[x]
	ls := u.loopSpec(n)
	coll := u.eval(st, x.X)
	ct := types.Unalias(coll.T).Underlying()
	if p, ok := ct.(*types.Pointer); ok {
		coll = u.loadThrough(st, coll)
		ct = types.Unalias(p.Elem()).Underlying()
	}
	idxName := fmt.Sprintf("i$%d", n)
	bindKV := func(s *State, k, v *Val) {
		if x.Key != nil {
			if x.Tok == token.DEFINE {
				if id, ok := x.Key.(*ast.Ident); ok && id.Name != "_" {
					if obj, ok := u.info.Defs[id].(*types.Var); ok {
						kk := *k
						kk.T = obj.Type()
						s.vars[obj] = &kk
					}
				}
			} else {
				u.assign(s, x.Key, k)
			}
		}
		if x.Value != nil && v != nil {
			if x.Tok == token.DEFINE {
				if id, ok := x.Value.(*ast.Ident); ok && id.Name != "_" {
					if obj, ok := u.info.Defs[id].(*types.Var); ok {
						vv := *v
						vv.T = obj.Type()
						s.vars[obj] = &vv
					}
				}
			} else {
				u.assign(s, x.Value, v)
			}
		}
	}
	switch t := ct.(type) {
	case *types.Slice, *types.Array, *types.Basic:
		isStr := false
		isInt := false
		if b, ok := t.(*types.Basic); ok {
			if b.Info()&types.IsString != 0 {
				isStr = true
			} else if b.Info()&types.IsInteger != 0 {
				isInt = true
			} else {
				break
			}
		}
		length := coll.Len
		if isStr {
			length = app("str.len", coll.S)
		}
		if isInt {
			length = coll.S
		}
		elemAt := func(s *State, idx string) *Val {
			if isInt {
				return nil
			}
			if isStr {
				r := u.freshVal(s, types.Typ[types.Rune], "rune")
				return r
			}
			return u.fromScalar(s, app("select", coll.Arr, idx), elemType(coll.T))
		}
		if ls.Unroll > 0 {
			return u.unrollRange(st, x, label, ls.Unroll, length, elemAt, bindKV)
		}
		iter := func(s *State) []*State {
			i := u.freshVal(s, types.Typ[types.Int], idxName)
			s.assume(tAnd(app("<=", "0", i.S), app("<", i.S, length)))
			u.curLoopIdx[n] = i.S
			bindKV(s, i, elemAt(s, i.S))
			outs := u.exec(s, x.Body)
			cont, brk, other := splitLoopOutcomes(outs, label)
			return append(append(cont, brk...), other...)
		}
		vars, heaps, gvars, wm := u.modifiedBy(st, iter)
		// index at head
		u.curLoopIdx[n] = "0"
		u.checkInvs(st, n, ls, "init", x.Body.Pos())
		u.havocLoopState(st, vars, heaps, gvars, wm)
		idx := u.d.fresh(idxName, SInt)
		if isStr {
			// byte offsets advance by rune width: index is monotone but not +1
			st.assumeFact(tAnd(app("<=", "0", idx), app("<=", idx, length)))
		} else {
			st.assumeFact(tAnd(app("<=", "0", idx), app("<=", idx, length)))
		}
		u.curLoopIdx[n] = idx
		u.assumeInvs(st, n, ls, x.Body.Pos())
		exit := st.clone()
		exit.assume(tEq(idx, length))
		exit.trace = append(exit.trace, fmt.Sprintf("%s loop%d exit", u.pos(x), n))
		st.assume(app("<", idx, length))
		st.trace = append(st.trace, fmt.Sprintf("%s loop%d body", u.pos(x), n))
		bindKV(st, &Val{T: types.Typ[types.Int], S: idx}, elemAt(st, idx))
		outs := u.exec(st, x.Body)
		cont, brk, other := splitLoopOutcomes(outs, label)
		for _, o := range cont {
			nidx := app("+", idx, "1")
			if isStr {
				w := u.d.fresh("runew", SInt)
				o.assumeFact(tAnd(app("<=", "1", w), app("<=", w, "4"), app("<=", app("+", idx, w), length)))
				nidx = app("+", idx, w)
			}
			u.curLoopIdx[n] = nidx
			u.checkInvs(o, n, ls, "preserve", x.Body.Pos())
		}
		u.curLoopIdx[n] = idx
		// after the loop the index name refers to the exit value
		res := []*State{exit}
		// break states: idx stays as is
		res = append(res, brk...)
		res = append(res, other...)
		u.loopExitIdx[n] = idx
		return res
	case *types.Map:
		return u.execRangeMap(st, x, label, n, ls, coll, t, bindKV)
	case *types.Chan:
		iter := func(s *State) []*State {
			bindKV(s, u.freshVal(s, t.Elem(), "chv"), nil)
			outs := u.exec(s, x.Body)
			cont, brk, other := splitLoopOutcomes(outs, label)
			return append(append(cont, brk...), other...)
		}
		vars, heaps, gvars, wm := u.modifiedBy(st, iter)
		u.checkInvs(st, n, ls, "init", x.Body.Pos())
		u.havocLoopState(st, vars, heaps, gvars, wm)
		u.assumeInvs(st, n, ls, x.Body.Pos())
		exit := st.clone()
		bindKV(st, u.freshVal(st, t.Elem(), "chv"), nil)
		outs := u.exec(st, x.Body)
		cont, brk, other := splitLoopOutcomes(outs, label)
		for _, o := range cont {
			u.checkInvs(o, n, ls, "preserve", x.Body.Pos())
		}
		return append(append([]*State{exit}, brk...), other...)
	}
	u.note("unmodelled range over " + types.TypeString(coll.T, nil))
	u.outside = "range"
	return []*State{st}
}

func (u *Unit) unrollRange(st *State, x *ast.RangeStmt, label string, k int, length string, elemAt func(*State, string) *Val, bindKV func(*State, *Val, *Val)) []*State {
	prev := u.bounded
	u.bounded = fmt.Sprintf("unroll(%d)", k)
	defer func() { u.bounded = prev }()
	st.assume(app("<=", length, intLit(int64(k)))) // unwinding assumption (reported as bounded)
	var out []*State
	cur := []*State{st}
	for i := 0; i <= k; i++ {
		var next []*State
		for _, s := range cur {
			exit := s.clone()
			exit.assume(tEq(length, intLit(int64(i))))
			out = append(out, exit)
			if i == k {
				continue
			}
			s.assume(app(">", length, intLit(int64(i))))
			bindKV(s, &Val{T: types.Typ[types.Int], S: intLit(int64(i))}, elemAt(s, intLit(int64(i))))
			outs := u.exec(s, x.Body)
			cont, brk, other := splitLoopOutcomes(outs, label)
			next = append(next, cont...)
			out = append(out, brk...)
			out = append(out, other...)
		}
		cur = next
	}
	return out
}

// range over a builtin map: arbitrary duplicate-free enumeration with a ghost visited set.
func (u *Unit) execRangeMap(st *State, x *ast.RangeStmt, label string, n int, ls *LoopSpec, coll *Val, t *types.Map, bindKV func(*State, *Val, *Val)) []*State {
	ks := sortOf(t.Key())
	// the domain is fixed at loop entry (mutation during iteration is not modelled)
	dom0 := u.d.fresh("rangedom", arrSort(ks, SBool))
	st.assumeFact(tEq(dom0, tIte(tEq(coll.S, "0"), fmt.Sprintf("((as const %s) false)", arrSort(ks, SBool)), u.mapDom(st, coll.T, coll.S))))
	val0 := u.d.fresh("rangeval", arrSort(ks, sortOf(t.Elem())))
	st.assumeFact(tEq(val0, u.mapVal(st, coll.T, coll.S)))
	pick := func(s *State, seen string) (string, *Val, *Val) {
		k := u.freshVal(s, t.Key(), "rk")
		s.assume(tAnd(app("select", dom0, k.S), tNot(app("select", seen, k.S))))
		v := u.fromScalar(s, app("select", val0, k.S), t.Elem())
		return k.S, k, v
	}
	iter := func(s *State) []*State {
		seen := u.d.fresh("seen", arrSort(ks, SBool))
		u.curLoopSeen[n] = seen
		_, k, v := pick(s, seen)
		bindKV(s, k, v)
		outs := u.exec(s, x.Body)
		cont, brk, other := splitLoopOutcomes(outs, label)
		return append(append(cont, brk...), other...)
	}
	vars, heaps, gvars, wm := u.modifiedBy(st, iter)
	empty := fmt.Sprintf("((as const %s) false)", arrSort(ks, SBool))
	u.curLoopSeen[n] = empty
	u.checkInvs(st, n, ls, "init", x.Body.Pos())
	u.havocLoopState(st, vars, heaps, gvars, wm)
	seen := u.d.fresh("seen", arrSort(ks, SBool))
	// seen ⊆ dom0
	st.assumeFact(fmt.Sprintf("(forall ((k %s)) (=> (select %s k) (select %s k)))", ks, seen, dom0))
	u.curLoopSeen[n] = seen
	u.assumeInvs(st, n, ls, x.Body.Pos())
	exit := st.clone()
	exit.assume(fmt.Sprintf("(forall ((k %s)) (=> (select %s k) (select %s k)))", ks, dom0, seen))
	exit.trace = append(exit.trace, fmt.Sprintf("%s loop%d exit", u.pos(x), n))
	kterm, k, v := pick(st, seen)
	bindKV(st, k, v)
	st.trace = append(st.trace, fmt.Sprintf("%s loop%d body", u.pos(x), n))
	outs := u.exec(st, x.Body)
	cont, brk, other := splitLoopOutcomes(outs, label)
	for _, o := range cont {
		u.curLoopSeen[n] = app("store", seen, kterm, "true")
		u.checkInvs(o, n, ls, "preserve", x.Body.Pos())
	}
	u.curLoopSeen[n] = seen
	return append(append([]*State{exit}, brk...), other...)
}

func (u *Unit) ghostSpawn(st *State, x *ast.GoStmt) {
	// ghost counter "spawned": number of go statements executed on this path
	g := st.gvars["spawned"]
	if g == nil {
		return
	}
	st.gvars["spawned"] = &Val{T: g.T, S: app("+", g.S, "1")}
	// ghost(x).spawned := true for the first reference-typed argument of the go statement
	if _, ok := u.eng.cs.GhostFields["spawned"]; ok && len(x.Call.Args) > 0 {
		a := u.eval(st, x.Call.Args[0])
		if kindOf(a.T) == kRef && a.S != "" {
			h := u.heapGet(st, "G!spawned", SBool)
			u.heapSet(st, "G!spawned", SBool, app("store", h, a.S, "true"))
		}
	}
}

// returnAsserts: `at return <n> assert <expr>` -- evaluated over the locals just before return statement n.
func (u *Unit) returnAsserts(st *State, x *ast.ReturnStmt) {
	if u.ct == nil || len(u.ct.CallAsserts) == 0 || u.quiet > 0 {
		return
	}
	key := fmt.Sprintf("return#%d", u.retOrd[x])
	for _, ca := range u.ct.CallAsserts {
		if ca.Text != key {
			continue
		}
		u.callAssertSeen[ca.N] = true
		env := u.specEnvLocal(st, x.Pos(), 0)
		env.what = u.name + " at " + key
		g, q := u.evalSpecBool(st, ca.E, env, false)
		u.oblige(st, fmt.Sprintf("at-return(%d).assert.%d", u.retOrd[x], ca.N), "return-assert", ca.E.String(), g, q)
	}
}

// hasFreshConst: does the term mention a constant created after declaration counter n0 (name!N with N > n0)?
func hasFreshConst(term string, n0 int) bool {
	for i := 0; i < len(term); i++ {
		if term[i] == '!' {
			j := i + 1
			n := 0
			for j < len(term) && term[j] >= '0' && term[j] <= '9' {
				n = n*10 + int(term[j]-'0')
				j++
			}
			if j > i+1 && n > n0 {
				return true
			}
		}
	}
	return false
}
