package main

import (
	"go/types"
	"encoding/json"
	"fmt"
	"os"
	"path/filepath"
	"sort"
	"strconv"
	"strings"
	"time"

	"golang.org/x/tools/go/packages"
)

var verifDir = "/verif"

func repoDir() string {
	if d := os.Getenv("GOVC_REPO"); d != "" {
		return d
	}
	return "/repo"
}

func loadEngine(tier string) (*Engine, error) {
	cfg := &packages.Config{
		Mode:       packages.NeedName | packages.NeedFiles | packages.NeedSyntax | packages.NeedTypes | packages.NeedTypesInfo | packages.NeedImports | packages.NeedDeps | packages.NeedCompiledGoFiles,
		Dir:        repoDir(),
		BuildFlags: []string{"-tags=verif"},
		Env:        append(os.Environ(), "GOFLAGS=-mod=mod", "GOPROXY=off", "GOSUMDB=off", "GOTOOLCHAIN=local"),
	}
	// GOVC_OVERLAY=<file>=<replacement>[,<file>=<replacement>…]: verify the tree with some files replaced (mutation sweep)
	if ov := os.Getenv("GOVC_OVERLAY"); ov != "" {
		cfg.Overlay = map[string][]byte{}
		for _, kv := range strings.Split(ov, ",") {
			if i := strings.Index(kv, "="); i > 0 {
				b, err := os.ReadFile(kv[i+1:])
				if err != nil {
					return nil, err
				}
				cfg.Overlay[kv[:i]] = b
			}
		}
	}
	pkgs, err := packages.Load(cfg, "./...")
	if err != nil {
		return nil, err
	}
	e := &Engine{pkgs: map[string]*packages.Package{}, allPkgs: map[string]*packages.Package{}, heapSorts: map[string]string{}, heapIsRef: map[string]bool{}, tagNames: map[string]bool{}, cs: newContractSet(), tier: tier}
	nerr := 0
	for _, p := range pkgs {
		for _, er := range p.Errors {
			fmt.Fprintln(os.Stderr, "load error:", er)
			nerr++
		}
		e.pkgs[p.PkgPath] = p
		e.fset = p.Fset
	}
	if nerr > 0 {
		return nil, fmt.Errorf("%d package errors: /repo does not type-check", nerr)
	}
	for _, p := range pkgs {
		if p.TypesInfo == nil {
			continue
		}
		for _, tv := range p.TypesInfo.Types {
			if tv.Type == nil {
				continue
			}
			if m, ok := types.Unalias(tv.Type).Underlying().(*types.Map); ok {
				registerValueStruct(m.Key())
			}
		}
	}
	packages.Visit(pkgs, nil, func(p *packages.Package) { e.allPkgs[p.PkgPath] = p })
	e.indexFuncs()
	// contract files
	var paths []string
	for path := range e.pkgs {
		paths = append(paths, path)
	}
	sort.Strings(paths)
	for _, path := range paths {
		for _, f := range e.pkgs[path].GoFiles {
			if filepath.Base(f) == "zz_contracts_verif.go" {
				e.cs.parseContractFile(path, f)
				e.contractFiles = append(e.contractFiles, f)
			}
		}
	}
	e.timeoutS = 10
	if tier == "thorough" {
		e.timeoutS = 60
	}
	if s := os.Getenv("GOVC_TIMEOUT"); s != "" {
		e.timeoutS, _ = strconv.Atoi(s)
	}
	e.seed, _ = strconv.Atoi(os.Getenv("VERIF_SEED"))
	if e.seed < 0 {
		e.seed = -e.seed
	}
	e.outDir = filepath.Join(verifDir, "out")
	// one query directory per process: obligation names repeat across properties (shared functions) and across
	// scratch runs, and concurrent runs must never read each other's query files
	e.smtDir = filepath.Join(e.outDir, "smt", fmt.Sprintf("run-%d", os.Getpid()))
	return e, nil
}

// cleanupSMT removes this run's query files, except those of the obligations named (failed ones: their replay files
// point at them). GOVC_KEEP_SMT=1 keeps everything.
func (e *Engine) cleanupSMT(keep []string) {
	if os.Getenv("GOVC_KEEP_SMT") != "" {
		return
	}
	if len(keep) == 0 {
		os.RemoveAll(e.smtDir)
		return
	}
	ents, _ := os.ReadDir(e.smtDir)
	for _, en := range ents {
		ok := false
		for _, k := range keep {
			if strings.HasPrefix(en.Name(), sanitizeFile(k)+".") {
				ok = true
			}
		}
		if !ok {
			os.Remove(filepath.Join(e.smtDir, en.Name()))
		}
	}
}

func hasProp(ps []string, p string) bool {
	for _, x := range ps {
		if x == p {
			return true
		}
	}
	return false
}

type finding struct {
	Kind, Prop, Obl, Desc string
}

func loadFindings() []finding {
	data, err := os.ReadFile(filepath.Join(verifDir, "known_findings.txt"))
	if err != nil {
		return nil
	}
	var out []finding
	for _, l := range strings.Split(string(data), "\n") {
		l = strings.TrimSpace(l)
		if l == "" || strings.HasPrefix(l, "#") {
			continue
		}
		var f finding
		switch {
		case strings.HasPrefix(l, "finding:"):
			f.Kind = "finding"
			l = strings.TrimSpace(l[8:])
		case strings.HasPrefix(l, "fixed:"):
			f.Kind = "fixed"
			l = strings.TrimSpace(l[6:])
		default:
			continue
		}
		for _, w := range strings.Fields(l) {
			if strings.HasPrefix(w, "property=") {
				f.Prop = w[9:]
			} else if strings.HasPrefix(w, "obligation=") {
				f.Obl = w[11:]
			}
		}
		if i := strings.Index(l, "::"); i >= 0 {
			f.Desc = strings.TrimSpace(l[i+2:])
		} else {
			f.Desc = l
		}
		out = append(out, f)
	}
	return out
}

func (e *Engine) unitsFor(prop string, filter string) []*Unit {
	var keys []string
	for k := range e.cs.Funcs {
		keys = append(keys, k)
	}
	sort.Strings(keys)
	var units []*Unit
	for _, k := range keys {
		ct := e.cs.Funcs[k]
		if ct.Kind != "func" || ct.Flags["trusted"] != "" || (ct.Flags["inline"] != "" && len(ct.Ensures) == 0) {
			continue
		}
		if prop != "" && !hasProp(ct.Props, prop) {
			continue
		}
		if filter != "" && !matchFilter(k, filter) {
			continue
		}
		u, err := e.buildUnit(ct)
		if err != nil {
			fmt.Fprintln(os.Stderr, "unit error:", err)
			continue
		}
		units = append(units, u)
	}
	for _, l := range e.cs.Lemmas {
		if prop != "" && !hasProp(l.Props, prop) {
			continue
		}
		if filter != "" && !strings.Contains(l.Name, filter) {
			continue
		}
		units = append(units, e.lemmaUnit(l))
	}
	return units
}

// matchFilter: substring match; "=name" matches the function name exactly or one of its closures (name$…).
func matchFilter(k, filter string) bool {
	if strings.HasPrefix(filter, "=") {
		f := filter[1:]
		return strings.HasSuffix(k, f) && (len(k) == len(f) || k[len(k)-len(f)-1] == '.' || k[len(k)-len(f)-1] == '/') ||
			strings.Contains(k, f+"$") && (strings.HasPrefix(k, f+"$") || strings.Contains(k, "."+f+"$") || strings.Contains(k, "/"+f+"$"))
	}
	return strings.Contains(k, filter)
}

func main() {
	if len(os.Args) < 2 {
		fmt.Fprintln(os.Stderr, "usage: govc check <property> <quick|thorough> | govc dev <filter> | govc list")
		os.Exit(2)
	}
	switch os.Args[1] {
	case "check":
		tier := "quick"
		if len(os.Args) > 3 {
			tier = os.Args[3]
		}
		os.Exit(check(os.Args[2], tier))
	case "replay":
		data, err := os.ReadFile(os.Args[2])
		if err != nil {
			fmt.Fprintln(os.Stderr, err)
			os.Exit(2)
		}
		fmt.Println(string(data))
		if replayConfirmed(os.Args[2]) {
			os.Exit(1)
		}
		os.Exit(0)
	case "dev":
		os.Exit(dev(os.Args[2]))
	case "units":
		// one line per verified function: contract key, file, first and last line, properties
		e, err := loadEngine("quick")
		if err != nil {
			fmt.Fprintln(os.Stderr, err)
			os.Exit(2)
		}
		for _, u := range e.unitsFor("", "") {
			if u.ct == nil || u.body == nil || u.outerDecl != nil {
				continue
			}
			fd := e.funcDecls[u.key]
			if fd == nil {
				continue
			}
			a, b := e.fset.Position(fd.Pos()), e.fset.Position(fd.End())
			fmt.Printf("%s\t%s\t%d\t%d\t%s\n", u.name, a.Filename, a.Line, b.Line, strings.Join(u.ct.Props, ","))
		}
	case "list":
		e, err := loadEngine("quick")
		if err != nil {
			fmt.Fprintln(os.Stderr, err)
			os.Exit(2)
		}
		for k, c := range e.cs.Funcs {
			fmt.Println(k, c.Kind, c.Props)
		}
		for _, er := range e.cs.Errors {
			fmt.Println("CONTRACT ERROR:", er)
		}
	default:
		fmt.Fprintln(os.Stderr, "unknown command")
		os.Exit(2)
	}
}

func dev(filter string) int {
	e, err := loadEngine(envOr("VERIF_TIER", "quick"))
	if err != nil {
		fmt.Fprintln(os.Stderr, err)
		return 2
	}
	units := e.unitsFor("", filter)
	var all []*Obl
	for _, u := range units {
		u.run()
		for _, n := range u.order {
			all = append(all, u.obls[n])
		}
		for _, n := range sortedNotes(u.notes) {
			fmt.Println("  note:", u.name, n)
		}
	}
	for _, er := range e.cs.Errors {
		fmt.Println("CONTRACT ERROR:", er)
	}
	e.solveAll(all)
	bad := 0
	for _, o := range all {
		st := "ok  "
		if !o.ok() {
			st = "FAIL"
			bad++
		}
		fmt.Printf("%s %-90s %-8s %-7s %5dms insts=%d %s\n", st, o.Name, o.Result.Status, o.Result.Solver, o.Result.Ms, len(o.Insts), trunc(o.Text, 70))
		if !o.ok() && os.Getenv("GOVC_VERBOSE") != "" {
			fmt.Println("     text:", o.Text)
			fmt.Println("     raw:", trunc(o.Result.Raw, 300))
			if o.Result.Status == "sat" {
				fmt.Println("     model:", trunc(strings.ReplaceAll(o.Result.Model, "\n", " "), 1500))
			}
		}
	}
	fmt.Printf("%d obligations, %d failed\n", len(all), bad)
	if bad == 0 || os.Getenv("GOVC_VERBOSE") == "" {
		e.cleanupSMT(nil)
	}
	if bad > 0 {
		return 1
	}
	return 0
}

// manifestCategory: the level category claimed for the property in MANIFEST.json (so that evidence and manifest agree).
func manifestCategory(prop string) string {
	b, err := os.ReadFile(filepath.Join(verifDir, "MANIFEST.json"))
	if err != nil {
		return "proof"
	}
	var m struct {
		Checks []struct {
			PropertyID   string `json:"property_id"`
			LevelClaimed struct {
				Category string `json:"category"`
			} `json:"level_claimed"`
		} `json:"checks"`
	}
	if json.Unmarshal(b, &m) != nil {
		return "proof"
	}
	for _, c := range m.Checks {
		if c.PropertyID == prop && c.LevelClaimed.Category != "" {
			return c.LevelClaimed.Category
		}
	}
	return "proof"
}

func trunc(s string, n int) string {
	if len(s) > n {
		return s[:n] + "…"
	}
	return s
}

func envOr(k, d string) string {
	if v := os.Getenv(k); v != "" {
		return v
	}
	return d
}

func check(prop, tier string) int {
	start := time.Now()
	if t := os.Getenv("VERIF_TIER"); t != "" && len(os.Args) <= 3 {
		tier = t
	}
	e, err := loadEngine(tier)
	if err != nil {
		fmt.Fprintln(os.Stderr, "govc: infrastructure failure:", err)
		return 2
	}
	loadS := time.Since(start).Seconds()
	units := e.unitsFor(prop, "")
	var all []*Obl
	trusted := map[string]bool{}
	notes := map[string]bool{}
	var funcs []string
	for _, u := range units {
		u.run()
		funcs = append(funcs, u.name)
		for _, n := range u.order {
			all = append(all, u.obls[n])
		}
		for k := range u.trusted {
			trusted[k] = true
		}
		for k := range u.notes {
			notes[u.name+": "+k] = true
		}
		// every used, non-trusted contract must itself be checked under some property
		for k := range u.usedContracts {
			ct := e.cs.Funcs[k]
			if ct == nil {
				continue
			}
			switch {
			case ct.Flags["trusted"] != "":
				trusted["trusted contract: "+k+" ("+ct.Flags["trusted"]+")"] = true
			case ct.Kind == "interface":
				trusted["interface contract (each implementation under contract is checked against it separately): "+k] = true
			case ct.Kind == "functype":
				trusted["functype contract (literals assigned to it are checked where under contract): "+k] = true
			case len(ct.Props) == 0:
				e.cs.Errors = append(e.cs.Errors, "contract "+k+" is used at a call site but never checked (no property) and not marked trusted")
			}
		}
	}
	if len(e.cs.Errors) > 0 {
		for _, er := range e.cs.Errors {
			fmt.Fprintln(os.Stderr, "govc: contract error:", er)
		}
	}
	findings := loadFindings()
	e.noRetry = map[string]bool{}
	for _, f := range findings {
		if f.Kind == "finding" {
			e.noRetry[f.Obl] = true
		}
	}
	e.solveAll(all)
	known := map[string]finding{}
	// obligations of shared functions that are recorded as a known finding of ANOTHER property: the finding is reported
	// by that property's check; here the obligation is left out (named in the evidence), not raised again
	elsewhere := map[string]finding{}
	for _, f := range findings {
		if f.Kind == "finding" && f.Prop == prop {
			known[f.Obl] = f
		} else if f.Kind == "finding" {
			elsewhere[f.Obl] = f
		}
	}
	var reportedElsewhere []string
	os.MkdirAll(filepath.Join(verifDir, "out", "replay"), 0o755)
	var deadReturns []string
	var nObl, nDis, nCover, nCoverOK, nCoverGround, nCoverUndecided, nBounded, nBoundedOK, violations int
	var solverMs int64
	var samples []map[string]interface{}
	var knownOut []string
	bySolver := map[string]int{}
	var failed []*Obl
	for _, o := range all {
		solverMs += o.Result.Ms
		if len(samples) < 12 || !o.ok() {
			samples = append(samples, map[string]interface{}{"obligation": o.Name, "kind": o.Kind, "status": o.Result.Status, "solver": o.Result.Solver, "ms": o.Result.Ms, "clause": trunc(o.Text, 160)})
		}
		if o.Cover {
			nCover++
			if o.coverUndecided() {
				nCoverUndecided++
			} else if o.ok() {
				nCoverOK++
				if strings.HasSuffix(o.Result.Solver, "/ground") {
					nCoverGround++
				}
			} else if strings.Contains(o.Name, "#reach@return.") {
				// thorough tier: a return site that no input reaches. Dead code is legal (defensive branches, error
				// paths excluded by a listed assumption); it is reported, not treated as a failure of the check.
				deadReturns = append(deadReturns, o.Name)
				fmt.Printf("NOTE: unreachable return site (dead code or excluded by an assumption): %s\n", o.Name)
			} else {
				failed = append(failed, o)
			}
			continue
		}
		if o.Bounded != "" {
			nBounded++
			if o.ok() {
				nBoundedOK++
			} else {
				failed = append(failed, o)
			}
			continue
		}
		if f, other := elsewhere[o.Name]; other {
			if _, mine := known[o.Name]; !mine {
				reportedElsewhere = append(reportedElsewhere, o.Name+" (known finding of "+f.Prop+")")
				continue
			}
		}
		if _, isKnown := known[o.Name]; isKnown {
			if !o.ok() {
				failed = append(failed, o)
			} else {
				fmt.Printf("NOTE: known finding no longer reproduces: property=%s %s\n", prop, o.Name)
			}
			continue
		}
		nObl++
		if o.ok() {
			nDis++
			bySolver[o.Result.Solver]++
		} else {
			failed = append(failed, o)
		}
	}
	for _, o := range failed {
		if f, ok := known[o.Name]; ok {
			line := fmt.Sprintf("KNOWN-FINDING: property=%s %s %s", prop, o.Name, f.Desc)
			fmt.Println(line)
			if tier == "thorough" {
				// canary: the recorded finding must still reproduce on the real code
				path := writeReplay(e, prop, o)
				line += fmt.Sprintf(" [replay %s confirmed=%v]", path, replayConfirmed(path))
				fmt.Printf("NOTE: known finding %s replay confirmed=%v\n", o.Name, replayConfirmed(path))
			}
			knownOut = append(knownOut, line)
			continue
		}
		violations++
		path := writeReplay(e, prop, o)
		suffix := ""
		if !replayConfirmed(path) {
			suffix = " no-failing-input-found"
		}
		fmt.Printf("VIOLATION property=%s replay=%s obligation=%s status=%s%s\n", prop, path, o.Name, o.Result.Status, suffix)
	}
	if len(e.cs.Errors) > 0 {
		violations++
		path := filepath.Join(verifDir, "out", "replay", prop+"_contract_errors.json")
		b, _ := json.MarshalIndent(map[string]interface{}{"obligation": "contract-files-wellformed", "errors": e.cs.Errors}, "", " ")
		os.WriteFile(path, b, 0o644)
		fmt.Printf("VIOLATION property=%s replay=%s obligation=contract-files-wellformed no-failing-input-found\n", prop, path)
	}
	// vacuity guard: obligation count must not drop below the committed expectation
	exp := expectedObligations()
	if want, ok := exp[prop]; ok && nObl < want {
		violations++
		path := filepath.Join(verifDir, "out", "replay", prop+"_obligation_count.json")
		b, _ := json.MarshalIndent(map[string]interface{}{"obligation": "obligation-count", "expected_at_least": want, "generated": nObl}, "", " ")
		os.WriteFile(path, b, 0o644)
		fmt.Printf("VIOLATION property=%s replay=%s obligation=obligation-count generated=%d expected>=%d no-failing-input-found\n", prop, path, nObl, want)
	}
	if nObl == 0 {
		fmt.Fprintf(os.Stderr, "govc: no obligations generated for %s\n", prop)
		violations++
		fmt.Printf("VIOLATION property=%s replay=%s obligation=obligation-count generated=0 no-failing-input-found\n", prop, filepath.Join(verifDir, "out", "replay", prop+"_obligation_count.json"))
	}
	var tb []string
	for k := range trusted {
		tb = append(tb, k)
	}
	tb = append(tb, e.cs.RawScanFor(prop)...)
	tb = append(tb, "govc (VC generator, /verif/govc) and its Go semantics summary (DESIGN.md 3.2)", "z3 4.8.12 / z3 5.1.0 / cvc5 1.0.3: an unsat from any one is accepted", "solver tag /strabs: query posed with String as an uninterpreted sort (only when it has no string operation; only unsat is accepted from it); tag +focus: cut assertion proved from entry facts and earlier cuts of the same site alone", "mathematical integers except where overflow obligations are enabled", "slices are values: aliasing through shared backing arrays is not modelled")
	sort.Strings(tb)
	tb = uniq(tb)
	var ns []string
	for k := range notes {
		ns = append(ns, k)
	}
	sort.Strings(ns)
	sort.Strings(funcs)
	level := manifestCategory(prop)
	ev := map[string]interface{}{
		"property_id": prop, "tier": tier, "seed": e.seed, "level": level,
		"coverage": map[string]interface{}{
			"obligations": nObl, "discharged": nDis,
			"checker_cmd":  fmt.Sprintf("./check %s %s  (govc: WP/symbolic execution over /repo's typed AST, SMT portfolio z3-new|z3|cvc5, timeout %ds)", prop, tier, e.timeoutS),
			"trusted_base": tb,
			"samples":      samples,
			"explanation":  "Every obligation is generated from the current /repo working tree (go/packages, -tags verif) for the functions listed in functions_under_contract and must be unsat (valid) in one of the SMT solvers; cover obligations must be sat.",
			"functions_under_contract": funcs,
			"unreachable_return_sites": deadReturns,
			"obligations_reported_by_another_property": reportedElsewhere,
			"cover_obligations":        map[string]int{"total": nCover, "sat": nCoverOK, "sat_quantifier_free_part_only": nCoverGround, "undecided": nCoverUndecided},
			"bounded":                  map[string]int{"total": nBounded, "discharged": nBoundedOK},
			"discharged_by_solver":     bySolver,
			"solver_time_s":            float64(solverMs) / 1000.0,
			"load_s":                   loadS,
			"known_findings":           knownOut,
			"unmodelled_notes":         ns,
			"evaluations":              nObl + nCover + nBounded,
			"distinct_nontrivial":      nObl,
			"rule":                     "one evaluation per named obligation (per clause x return/call site); all are distinct by name",
		},
		"assumptions": tb,
		"wall_s":      time.Since(start).Seconds(),
		"violations":  violations,
	}
	evDir := filepath.Join(verifDir, "evidence")
	if os.Getenv("GOVC_REPO") != "" {
		// runs against a scratch copy (seeded changes, mutants) never overwrite the committed evidence
		evDir = filepath.Join(verifDir, "out", "scratch-evidence")
	}
	os.MkdirAll(evDir, 0o755)
	b, _ := json.MarshalIndent(ev, "", " ")
	os.WriteFile(filepath.Join(evDir, prop+".json"), b, 0o644)
	fmt.Printf("govc: property=%s tier=%s units=%d obligations=%d discharged=%d cover=%d/%d bounded=%d/%d known=%d violations=%d wall=%.1fs\n",
		prop, tier, len(units), nObl, nDis, nCoverOK, nCover, nBoundedOK, nBounded, len(knownOut), violations, time.Since(start).Seconds())
	var keep []string
	for _, o := range failed {
		keep = append(keep, o.Name)
	}
	e.cleanupSMT(keep)
	if violations > 0 {
		return 1
	}
	return 0
}

func uniq(xs []string) []string {
	var out []string
	for i, x := range xs {
		if i == 0 || x != xs[i-1] {
			out = append(out, x)
		}
	}
	return out
}

func (cs *ContractSet) RawScanFor(prop string) []string {
	return nil
}

func expectedObligations() map[string]int {
	out := map[string]int{}
	data, err := os.ReadFile(filepath.Join(verifDir, "expected_obligations.json"))
	if err != nil {
		return out
	}
	json.Unmarshal(data, &out)
	return out
}

func writeReplay(e *Engine, prop string, o *Obl) string {
	path := filepath.Join(verifDir, "out", "replay", prop+"-"+sanitizeFile(o.Name)+".json")
	var traces [][]string
	for i, in := range o.Insts {
		if i < 3 {
			traces = append(traces, in.Trace)
		}
	}
	rep := map[string]interface{}{
		"property": prop, "obligation": o.Name, "kind": o.Kind, "clause": o.Text, "solver_status": o.Result.Status, "solver": o.Result.Solver,
		"solver_output": trunc(o.Result.Raw, 4000), "model": trunc(o.Result.Model, 8000), "paths": traces,
		"smt_file": filepath.Join(e.smtDir, sanitizeFile(o.Name)+".smt2"), "replay_confirmed": false,
	}
	if o.Replay != nil {
		if ok, out := tryReplay(e, prop, o); out != "" {
			rep["replay_confirmed"] = ok
			rep["replay_output"] = trunc(out, 6000)
		}
	}
	b, _ := json.MarshalIndent(rep, "", " ")
	os.WriteFile(path, b, 0o644)
	return path
}

func replayConfirmed(path string) bool {
	data, err := os.ReadFile(path)
	if err != nil {
		return false
	}
	var m map[string]interface{}
	json.Unmarshal(data, &m)
	b, _ := m["replay_confirmed"].(bool)
	return b
}
