package main

// Trusted models of standard-library and third-party functions. Every model used is listed in evidence.

import (
	"fmt"
	"net/textproto"
	"strconv"
	"go/ast"
	"go/types"
	"strings"
)

type modelFn func(u *Unit, st *State, x *ast.CallExpr, recv *Val, fn *types.Func) *Val
type stmtModelFn func(u *Unit, st *State, x *ast.CallExpr, recvExpr ast.Expr, lhs []ast.Expr) ([]*State, bool)

var models map[string]modelFn
var stmtModels map[string]stmtModelFn

func init() {
	models = map[string]modelFn{}
	stmtModels = map[string]stmtModelFn{}
	// ---- sync/atomic functions on &lvalue
	for _, ty := range []string{"Int32", "Int64", "Uint32", "Uint64"} {
		ty := ty
		models["sync/atomic.Load"+ty] = func(u *Unit, st *State, x *ast.CallExpr, _ *Val, fn *types.Func) *Val {
			u.trusted["model: sync/atomic (sequentially consistent single-location operations)"] = true
			return u.atomicRead(st, x.Args[0], fn)
		}
		models["sync/atomic.Store"+ty] = func(u *Unit, st *State, x *ast.CallExpr, _ *Val, fn *types.Func) *Val {
			u.trusted["model: sync/atomic (sequentially consistent single-location operations)"] = true
			v := u.eval(st, x.Args[1])
			u.atomicWrite(st, x.Args[0], v)
			return &Val{}
		}
		models["sync/atomic.Add"+ty] = func(u *Unit, st *State, x *ast.CallExpr, _ *Val, fn *types.Func) *Val {
			u.trusted["model: sync/atomic (sequentially consistent single-location operations)"] = true
			cur := u.atomicRead(st, x.Args[0], fn)
			d := u.eval(st, x.Args[1])
			rt := fn.Type().(*types.Signature).Results().At(0).Type()
			nv := u.arith(st, "+", cur, d, rt, x)
			u.atomicWrite(st, x.Args[0], nv)
			return nv
		}
		models["sync/atomic.CompareAndSwap"+ty] = func(u *Unit, st *State, x *ast.CallExpr, _ *Val, fn *types.Func) *Val {
			u.trusted["model: sync/atomic (sequentially consistent single-location operations)"] = true
			cur := u.atomicRead(st, x.Args[0], fn)
			old := u.eval(st, x.Args[1])
			nw := u.eval(st, x.Args[2])
			ok := tEq(cur.S, old.S)
			st.guard = append(st.guard, ok)
			u.atomicWrite(st, x.Args[0], nw)
			st.guard = st.guard[:len(st.guard)-1]
			return &Val{T: types.Typ[types.Bool], S: ok}
		}
		// methods of atomic.IntNN values (fields of kind kAtomic)
		recvName := "(*sync/atomic." + ty + ")."
		models[recvName+"Load"] = func(u *Unit, st *State, x *ast.CallExpr, recv *Val, fn *types.Func) *Val {
			u.trusted["model: sync/atomic (sequentially consistent single-location operations)"] = true
			return u.atomicMethodRead(st, x)
		}
		models[recvName+"Store"] = func(u *Unit, st *State, x *ast.CallExpr, recv *Val, fn *types.Func) *Val {
			u.trusted["model: sync/atomic (sequentially consistent single-location operations)"] = true
			v := u.eval(st, x.Args[0])
			u.atomicMethodWrite(st, x, v)
			return &Val{}
		}
		models[recvName+"Add"] = func(u *Unit, st *State, x *ast.CallExpr, recv *Val, fn *types.Func) *Val {
			u.trusted["model: sync/atomic (sequentially consistent single-location operations)"] = true
			cur := u.atomicMethodRead(st, x)
			d := u.eval(st, x.Args[0])
			rt := fn.Type().(*types.Signature).Results().At(0).Type()
			nv := u.arith(st, "+", cur, d, rt, x)
			u.atomicMethodWrite(st, x, nv)
			return nv
		}
		models[recvName+"CompareAndSwap"] = func(u *Unit, st *State, x *ast.CallExpr, recv *Val, fn *types.Func) *Val {
			u.trusted["model: sync/atomic (sequentially consistent single-location operations)"] = true
			cur := u.atomicMethodRead(st, x)
			old := u.eval(st, x.Args[0])
			nw := u.eval(st, x.Args[1])
			ok := tEq(cur.S, old.S)
			st.guard = append(st.guard, ok)
			u.atomicMethodWrite(st, x, nw)
			st.guard = st.guard[:len(st.guard)-1]
			return &Val{T: types.Typ[types.Bool], S: ok}
		}
		models[recvName+"Swap"] = func(u *Unit, st *State, x *ast.CallExpr, recv *Val, fn *types.Func) *Val {
			cur := u.atomicMethodRead(st, x)
			nw := u.eval(st, x.Args[0])
			u.atomicMethodWrite(st, x, nw)
			return cur
		}
	}
	models["(*sync/atomic.Bool).Load"] = func(u *Unit, st *State, x *ast.CallExpr, recv *Val, fn *types.Func) *Val {
		return u.atomicMethodRead(st, x)
	}
	models["(*sync/atomic.Bool).Store"] = func(u *Unit, st *State, x *ast.CallExpr, recv *Val, fn *types.Func) *Val {
		u.atomicMethodWrite(st, x, u.eval(st, x.Args[0]))
		return &Val{}
	}

	// ---- time
	models["time.Now"] = func(u *Unit, st *State, x *ast.CallExpr, _ *Val, fn *types.Func) *Val {
		u.trusted["model: time.Now is a monotone non-decreasing clock (nanoseconds as Int)"] = true
		return u.clockNow(st)
	}
	models["time.Since"] = func(u *Unit, st *State, x *ast.CallExpr, _ *Val, fn *types.Func) *Val {
		t := u.eval(st, x.Args[0])
		now := u.clockNow(st)
		return &Val{T: u.typeOf(x), S: app("-", now.S, t.S)}
	}
	models["time.Until"] = func(u *Unit, st *State, x *ast.CallExpr, _ *Val, fn *types.Func) *Val {
		t := u.eval(st, x.Args[0])
		now := u.clockNow(st)
		return &Val{T: u.typeOf(x), S: app("-", t.S, now.S)}
	}
	models["time.Unix"] = func(u *Unit, st *State, x *ast.CallExpr, _ *Val, fn *types.Func) *Val {
		s := u.eval(st, x.Args[0])
		n := u.eval(st, x.Args[1])
		return &Val{T: u.typeOf(x), S: app("+", app("*", s.S, "1000000000"), n.S)}
	}
	models["(time.Time).UnixNano"] = func(u *Unit, st *State, x *ast.CallExpr, recv *Val, fn *types.Func) *Val {
		return &Val{T: u.typeOf(x), S: recv.S}
	}
	models["(time.Time).Add"] = func(u *Unit, st *State, x *ast.CallExpr, recv *Val, fn *types.Func) *Val {
		d := u.eval(st, x.Args[0])
		return &Val{T: u.typeOf(x), S: app("+", recv.S, d.S)}
	}
	models["(time.Time).Sub"] = func(u *Unit, st *State, x *ast.CallExpr, recv *Val, fn *types.Func) *Val {
		d := u.eval(st, x.Args[0])
		return &Val{T: u.typeOf(x), S: app("-", recv.S, d.S)}
	}
	models["(time.Time).Before"] = func(u *Unit, st *State, x *ast.CallExpr, recv *Val, fn *types.Func) *Val {
		o := u.eval(st, x.Args[0])
		return &Val{T: types.Typ[types.Bool], S: app("<", recv.S, o.S)}
	}
	models["(time.Time).After"] = func(u *Unit, st *State, x *ast.CallExpr, recv *Val, fn *types.Func) *Val {
		o := u.eval(st, x.Args[0])
		return &Val{T: types.Typ[types.Bool], S: app(">", recv.S, o.S)}
	}
	models["(time.Time).Equal"] = func(u *Unit, st *State, x *ast.CallExpr, recv *Val, fn *types.Func) *Val {
		o := u.eval(st, x.Args[0])
		return &Val{T: types.Typ[types.Bool], S: tEq(recv.S, o.S)}
	}
	models["(time.Time).IsZero"] = func(u *Unit, st *State, x *ast.CallExpr, recv *Val, fn *types.Func) *Val {
		// the zero Time is year 1: modelled as the distinguished value 0 of the Int clock (time.Time{} evaluates to 0)
		return &Val{T: types.Typ[types.Bool], S: tEq(recv.S, "0")}
	}
	models["(time.Duration).Milliseconds"] = func(u *Unit, st *State, x *ast.CallExpr, recv *Val, fn *types.Func) *Val {
		return &Val{T: u.typeOf(x), S: app("godiv", recv.S, "1000000")}
	}
	models["(time.Duration).Nanoseconds"] = func(u *Unit, st *State, x *ast.CallExpr, recv *Val, fn *types.Func) *Val {
		return &Val{T: u.typeOf(x), S: recv.S}
	}

	// ---- mutexes: data-flow no-ops with a ghost held flag
	for _, m := range []string{"(*sync.Mutex).Lock", "(*sync.RWMutex).Lock"} {
		models[m] = func(u *Unit, st *State, x *ast.CallExpr, recv *Val, fn *types.Func) *Val {
			st.held[lockKey(x)] = "w"
			return &Val{}
		}
	}
	models["(*sync.RWMutex).RLock"] = func(u *Unit, st *State, x *ast.CallExpr, recv *Val, fn *types.Func) *Val {
		st.held[lockKey(x)] = "r"
		return &Val{}
	}
	for _, m := range []string{"(*sync.Mutex).Unlock", "(*sync.RWMutex).Unlock", "(*sync.RWMutex).RUnlock"} {
		models[m] = func(u *Unit, st *State, x *ast.CallExpr, recv *Val, fn *types.Func) *Val {
			delete(st.held, lockKey(x))
			return &Val{}
		}
	}

	// ---- math/rand
	models["math/rand.Intn"] = func(u *Unit, st *State, x *ast.CallExpr, _ *Val, fn *types.Func) *Val {
		u.trusted["model: math/rand.Intn(n) in [0,n), Float64 in [0,1)"] = true
		n := u.eval(st, x.Args[0])
		if u.safety {
			u.safetyObl(st, "randintn", x, app(">", n.S, "0"))
		}
		st.assume(app(">", n.S, "0"))
		r := u.freshVal(st, types.Typ[types.Int], "rand")
		st.assumeFact(tImp(app(">", n.S, "0"), tAnd(app("<=", "0", r.S), app("<", r.S, n.S))))
		return r
	}
	models["math/rand.Float64"] = func(u *Unit, st *State, x *ast.CallExpr, _ *Val, fn *types.Func) *Val {
		u.trusted["model: math/rand.Intn(n) in [0,n), Float64 in [0,1)"] = true
		r := u.freshVal(st, types.Typ[types.Float64], "randf")
		st.assumeFact(tAnd(app("fp.leq", fpLit(0, SF64), r.S), app("fp.lt", r.S, fpLit(1, SF64))))
		return r
	}

	// ---- sort.Slice with a literal less
	models["sort.Slice"] = modelSortSlice
	models["sort.SliceStable"] = modelSortSlice

	// ---- strings
	models["strings.HasPrefix"] = func(u *Unit, st *State, x *ast.CallExpr, _ *Val, fn *types.Func) *Val {
		a, b := u.eval(st, x.Args[0]), u.eval(st, x.Args[1])
		return &Val{T: types.Typ[types.Bool], S: app("str.prefixof", b.S, a.S)}
	}
	models["math.IsNaN"] = func(u *Unit, st *State, x *ast.CallExpr, _ *Val, fn *types.Func) *Val {
		return &Val{T: types.Typ[types.Bool], S: app("fp.isNaN", u.eval(st, x.Args[0]).S)}
	}
	models["math.IsInf"] = func(u *Unit, st *State, x *ast.CallExpr, _ *Val, fn *types.Func) *Val {
		f, sign := u.eval(st, x.Args[0]), u.eval(st, x.Args[1])
		inf := app("fp.isInfinite", f.S)
		return &Val{T: types.Typ[types.Bool], S: tAnd(inf, tOr(tEq(sign.S, "0"), tAnd(app(">", sign.S, "0"), app("fp.isPositive", f.S)), tAnd(app("<", sign.S, "0"), app("fp.isNegative", f.S))))}
	}
	// ---- reflect over an interface value that holds a slice (filter.GlobFilter.Apply): a reflect.Value is the
	// interface value it was made from; Len/Index are refl.len/refl.index of that value, tied to the concrete slice for
	// every slice-of-pointers type tag in the query (reflAxioms).
	models["reflect.ValueOf"] = func(u *Unit, st *State, x *ast.CallExpr, _ *Val, fn *types.Func) *Val {
		u.trusted["model: reflect.ValueOf/Kind/Len/Index/Interface on a slice held in an interface value"] = true
		v := u.boxIface(st, u.eval(st, x.Args[0]))
		u.reflDecls()
		return &Val{T: fn.Type().(*types.Signature).Results().At(0).Type(), S: v.S}
	}
	models["(reflect.Value).Kind"] = func(u *Unit, st *State, x *ast.CallExpr, recv *Val, fn *types.Func) *Val {
		u.reflDecls()
		k := u.d.fun("reflkind", []string{SInt}, SInt)
		return &Val{T: fn.Type().(*types.Signature).Results().At(0).Type(), S: tIte(tEq(recv.S, "0"), "0", app(k, app(u.typeofFn(), recv.S)))}
	}
	models["(reflect.Value).Len"] = func(u *Unit, st *State, x *ast.CallExpr, recv *Val, fn *types.Func) *Val {
		u.reflDecls()
		if u.safety {
			k := u.d.fun("reflkind", []string{SInt}, SInt)
			u.safetyObl(st, "reflect.Len", x, tAnd(app("distinct", recv.S, "0"), tEq(app(k, app(u.typeofFn(), recv.S)), "23")))
		}
		l := app(u.d.fun("refl.len", []string{SInt}, SInt), recv.S)
		st.assumeFact(app(">=", l, "0"))
		return &Val{T: types.Typ[types.Int], S: l}
	}
	models["(reflect.Value).Index"] = func(u *Unit, st *State, x *ast.CallExpr, recv *Val, fn *types.Func) *Val {
		u.reflDecls()
		i := u.eval(st, x.Args[0])
		l := app(u.d.fun("refl.len", []string{SInt}, SInt), recv.S)
		if u.safety {
			u.safetyObl(st, "reflect.Index", x, tAnd(app("<=", "0", i.S), app("<", i.S, l)))
		}
		return &Val{T: fn.Type().(*types.Signature).Results().At(0).Type(), S: app(u.d.fun("refl.index", []string{SInt, SInt}, SInt), recv.S, i.S)}
	}
	models["(reflect.Value).Interface"] = func(u *Unit, st *State, x *ast.CallExpr, recv *Val, fn *types.Func) *Val {
		return &Val{T: types.NewInterfaceType(nil, nil), S: recv.S}
	}
	models["strings.Index"] = func(u *Unit, st *State, x *ast.CallExpr, _ *Val, fn *types.Func) *Val {
		a, b := u.eval(st, x.Args[0]), u.eval(st, x.Args[1])
		r := app("str.indexof", a.S, b.S, "0")
		// bounds of the result stated explicitly (they follow from str.indexof; solvers use them without unfolding it)
		st.assumeFact(tAnd(app(">=", r, "(- 1)"), app("<=", app("+", r, app("str.len", b.S)), app("+", app("str.len", a.S), tIte(app("<", r, "0"), app("+", app("str.len", b.S), "1"), "0")))))
		return &Val{T: types.Typ[types.Int], S: r}
	}
	models["strings.HasSuffix"] = func(u *Unit, st *State, x *ast.CallExpr, _ *Val, fn *types.Func) *Val {
		a, b := u.eval(st, x.Args[0]), u.eval(st, x.Args[1])
		return &Val{T: types.Typ[types.Bool], S: app("str.suffixof", b.S, a.S)}
	}
	models["strings.Contains"] = func(u *Unit, st *State, x *ast.CallExpr, _ *Val, fn *types.Func) *Val {
		a, b := u.eval(st, x.Args[0]), u.eval(st, x.Args[1])
		if strings.HasPrefix(b.S, "\"") && b.S == strings.ToLower(b.S) {
			// a lower-case literal found in s is also found in strings.ToLower(s)
			lowf := u.d.fun("fn!strings.ToLower", []string{SStr}, SStr)
			st.assumeFact(tImp(app("str.contains", a.S, b.S), app("str.contains", app(lowf, a.S), b.S)))
		}
		return &Val{T: types.Typ[types.Bool], S: app("str.contains", a.S, b.S)}
	}
	models["strings.Join"] = func(u *Unit, st *State, x *ast.CallExpr, _ *Val, fn *types.Func) *Val {
		u.trusted["model: strings.Join(xs, sep) contains every element, is \"\" for no elements, xs[0] for one, and starts with xs[0] otherwise"] = true
		xs, sep := u.eval(st, x.Args[0]), u.eval(st, x.Args[1])
		if xs.Arr == "" {
			return &Val{T: types.Typ[types.String], S: u.d.fresh("joined", SStr)}
		}
		r := u.joinTerm(xs, sep.S)
		bvCounter++
		j := fmt.Sprintf("jn!%d", bvCounter)
		arr := xs.Arr
		if strings.HasPrefix(arr, "(") {
			// name the array so that it can serve as a quantifier pattern
			arr = u.d.fresh("joinarr", arrSort(SInt, SStr))
			st.assumeFact(tEq(arr, xs.Arr))
		}
		st.assumeFact(fmt.Sprintf("(forall ((%s Int)) (! (=> (and (<= 0 %s) (< %s %s)) (str.contains %s (select %s %s))) :pattern ((select %s %s))))", j, j, j, xs.Len, r, arr, j, arr, j))
		st.assumeFact(tImp(tEq(xs.Len, "0"), tEq(r, `""`)))
		st.assumeFact(tImp(tEq(xs.Len, "1"), tEq(r, app("select", arr, "0"))))
		st.assumeFact(tImp(app(">", xs.Len, "1"), app("str.prefixof", app("str.++", app("select", arr, "0"), sep.S), r)))
		return &Val{T: types.Typ[types.String], S: r}
	}
	// ---- path / url helpers as uninterpreted (functional) library functions
	models["path.Join"] = func(u *Unit, st *State, x *ast.CallExpr, _ *Val, fn *types.Func) *Val {
		u.trusted["model: path.Join / path.Clean are uninterpreted functions of their arguments"] = true
		var parts []string
		for _, a := range x.Args {
			parts = append(parts, u.eval(st, a).S)
		}
		if len(parts) == 2 && !x.Ellipsis.IsValid() {
			return &Val{T: types.Typ[types.String], S: app(u.d.fun("fn!path.Join2", []string{SStr, SStr}, SStr), parts...)}
		}
		return u.freshVal(st, types.Typ[types.String], "joined")
	}
	models["path.Clean"] = func(u *Unit, st *State, x *ast.CallExpr, _ *Val, fn *types.Func) *Val {
		u.trusted["model: path.Join / path.Clean are uninterpreted functions of their arguments"] = true
		a := u.eval(st, x.Args[0])
		return &Val{T: types.Typ[types.String], S: app(u.d.fun("fn!path.Clean", []string{SStr}, SStr), a.S)}
	}
	models["strings.Split"] = func(u *Unit, st *State, x *ast.CallExpr, _ *Val, fn *types.Func) *Val {
		u.trusted["model: strings.Split is an uninterpreted function returning a non-empty slice for a non-empty separator"] = true
		a, b := u.eval(st, x.Args[0]), u.eval(st, x.Args[1])
		return u.splitVal(st, a.S, b.S, u.typeOf(x))
	}
	models["(*net/url.URL).ResolveReference"] = func(u *Unit, st *State, x *ast.CallExpr, recv *Val, fn *types.Func) *Val {
		u.trusted["model: URL.ResolveReference(ref): a fresh URL; for a reference without scheme and host it keeps the receiver's Scheme, User and Host, takes ref's RawQuery and an uninterpreted resolved path; an absolute reference is returned as a copy"] = true
		ref := u.eval(st, x.Args[0])
		t := recv.T
		r := u.alloc(st)
		get := func(p *Val, f string) *Val { return u.loadField(st, p.S, t, f) }
		rel := tAnd(tEq(get(ref, "Scheme").S, `""`), tEq(get(ref, "Host").S, `""`))
		for _, f := range []string{"Scheme", "Host", "User"} {
			a, b := get(recv, f), get(ref, f)
			u.storeField(st, r, t, f, &Val{T: a.T, S: tIte(rel, u.scalar(st, a), u.scalar(st, b))})
		}
		rp := app(u.d.fun("fn!url.resolvePath", []string{SStr, SStr}, SStr), get(recv, "Path").S, get(ref, "Path").S)
		u.storeField(st, r, t, "Path", &Val{T: types.Typ[types.String], S: tIte(rel, rp, get(ref, "Path").S)})
		u.storeField(st, r, t, "RawQuery", get(ref, "RawQuery"))
		u.storeField(st, r, t, "Fragment", get(ref, "Fragment"))
		return &Val{T: u.typeOf(x), S: r}
	}
	models["net/url.Parse"] = func(u *Unit, st *State, x *ast.CallExpr, _ *Val, fn *types.Func) *Val {
		u.trusted["model: url.Parse returns (fresh *URL, nil) or (nil, err)"] = true
		u.eval(st, x.Args[0])
		tp := u.typeOf(x).(*types.Tuple)
		errV := u.freshVal(st, tp.At(1).Type(), "parse.err")
		r := u.alloc(st)
		return &Val{T: tp, Tuple: []*Val{{T: tp.At(0).Type(), S: tIte(tEq(errV.S, "0"), r, "0")}, errV}}
	}
	models["strings.TrimPrefix"] = func(u *Unit, st *State, x *ast.CallExpr, _ *Val, fn *types.Func) *Val {
		a, b := u.eval(st, x.Args[0]), u.eval(st, x.Args[1])
		return &Val{T: types.Typ[types.String], S: tIte(app("str.prefixof", b.S, a.S), app("str.substr", a.S, app("str.len", b.S), app("-", app("str.len", a.S), app("str.len", b.S))), a.S)}
	}
	models["strings.TrimSuffix"] = func(u *Unit, st *State, x *ast.CallExpr, _ *Val, fn *types.Func) *Val {
		a, b := u.eval(st, x.Args[0]), u.eval(st, x.Args[1])
		return &Val{T: types.Typ[types.String], S: tIte(app("str.suffixof", b.S, a.S), app("str.substr", a.S, "0", app("-", app("str.len", a.S), app("str.len", b.S))), a.S)}
	}
	models["net/http.CanonicalHeaderKey"] = func(u *Unit, st *State, x *ast.CallExpr, _ *Val, fn *types.Func) *Val {
		a := u.eval(st, x.Args[0])
		return &Val{T: types.Typ[types.String], S: u.canonHeader(a.S)}
	}
	models["net/textproto.CanonicalMIMEHeaderKey"] = models["net/http.CanonicalHeaderKey"]
	models["slices.ContainsFunc"] = func(u *Unit, st *State, x *ast.CallExpr, _ *Val, fn *types.Func) *Val {
		u.trusted["model: slices.ContainsFunc(xs, f) == exists i :: f(xs[i]) for a literal single-expression f"] = true
		xs := u.eval(st, x.Args[0])
		lit, ok := ast.Unparen(x.Args[1]).(*ast.FuncLit)
		if !ok || len(lit.Body.List) != 1 || xs.Arr == "" {
			u.eval(st, x.Args[1])
			return u.freshVal(st, types.Typ[types.Bool], "containsfunc")
		}
		rs, isRet := lit.Body.List[0].(*ast.ReturnStmt)
		var pv *types.Var
		for _, f := range lit.Type.Params.List {
			for _, nm := range f.Names {
				pv, _ = u.info.Defs[nm].(*types.Var)
			}
		}
		if !isRet || len(rs.Results) != 1 || pv == nil {
			return u.freshVal(st, types.Typ[types.Bool], "containsfunc")
		}
		bvCounter++
		qi := fmt.Sprintf("ci!%d", bvCounter)
		tmp := st.clone()
		tmp.noFacts++
		tmp.vars[pv] = u.fromScalar(tmp, app("select", xs.Arr, qi), pv.Type())
		saveSafety := u.safety
		u.safety = false
		u.quiet++
		body := u.eval(tmp, rs.Results[0])
		u.quiet--
		u.safety = saveSafety
		return &Val{T: types.Typ[types.Bool], S: fmt.Sprintf("(exists ((%s Int)) (and (<= 0 %s) (< %s %s) %s))", qi, qi, qi, xs.Len, body.S)}
	}
	for _, f := range []string{"strings.ToLower", "strings.ToUpper", "strings.TrimSpace"} {
		f := f
		models[f] = func(u *Unit, st *State, x *ast.CallExpr, _ *Val, fn *types.Func) *Val {
			u.trusted["model: "+f+" is an uninterpreted function of its argument"] = true
			a := u.eval(st, x.Args[0])
			uf := u.d.fun("fn!"+f, []string{SStr}, SStr)
			if f != "strings.TrimSpace" {
				// case mapping of ASCII/most text keeps emptiness: "" iff ""
				st.assumeFact(tEq(tEq(app(uf, a.S), `""`), tEq(a.S, `""`)))
			}
			return &Val{T: types.Typ[types.String], S: app(uf, a.S)}
		}
	}
	models["strings.ReplaceAll"] = func(u *Unit, st *State, x *ast.CallExpr, _ *Val, fn *types.Func) *Val {
		u.trusted["model: strings.ReplaceAll is an uninterpreted function; it preserves the length when old and new have equal length"] = true
		a, o, n := u.eval(st, x.Args[0]), u.eval(st, x.Args[1]), u.eval(st, x.Args[2])
		f := u.d.fun("pure!strings.ReplaceAll!0", []string{SStr, SStr, SStr}, SStr)
		r := app(f, a.S, o.S, n.S)
		if lo, ok := unquoteSMT(o.S); ok {
			if ln, ok2 := unquoteSMT(n.S); ok2 && len(lo) == len(ln) {
				st.assumeFact(tEq(app("str.len", r), app("str.len", a.S)))
			}
		}
		return &Val{T: types.Typ[types.String], S: r}
	}
	models["strings.EqualFold"] = func(u *Unit, st *State, x *ast.CallExpr, _ *Val, fn *types.Func) *Val {
		u.trusted["model: strings.EqualFold(a,b) == (fold(a) == fold(b)) for an uninterpreted fold"] = true
		a, b := u.eval(st, x.Args[0]), u.eval(st, x.Args[1])
		return &Val{T: types.Typ[types.Bool], S: tEq(u.foldStr(a.S), u.foldStr(b.S))}
	}

	// ---- errors
	models["errors.Is"] = func(u *Unit, st *State, x *ast.CallExpr, _ *Val, fn *types.Func) *Val {
		u.trusted["model: errors.Is(e,t) is an uninterpreted relation with errors.Is(e,e) and !errors.Is(nil,t) for t != nil"] = true
		a, b := u.eval(st, x.Args[0]), u.eval(st, x.Args[1])
		uf := u.d.fun("fn!errors.Is", []string{SInt, SInt}, SBool)
		r := app(uf, a.S, b.S)
		u.usesErrIs = true
		st.assumeFact(tImp(tEq(a.S, b.S), r))
		st.assumeFact(tImp(tAnd(tEq(a.S, "0"), app("distinct", b.S, "0")), tNot(r)))
		return &Val{T: types.Typ[types.Bool], S: r}
	}

	models["errors.As"] = func(u *Unit, st *State, x *ast.CallExpr, _ *Val, fn *types.Func) *Val {
		u.trusted["model: errors.As(e,&t) is a function of (e, static type of t); on success t is a non-nil value determined by e"] = true
		e := u.eval(st, x.Args[0])
		tgt := u.atomicTarget(x.Args[1])
		if tgt == nil {
			u.eval(st, x.Args[1])
			return u.freshVal(st, types.Typ[types.Bool], "as")
		}
		tt := u.typeOf(tgt)
		tn := types.TypeString(tt, nil)
		okf := u.d.fun("fn!errors.As!"+tn, []string{SInt}, SBool)
		valf := u.d.fun("fn!errors.AsVal!"+tn, []string{SInt}, SInt)
		ok := app(okf, e.S)
		st.assumeFact(tImp(tEq(e.S, "0"), tNot(ok)))
		st.assumeFact(tImp(ok, app(">", app(valf, e.S), "0")))
		st.guard = append(st.guard, ok)
		u.assign(st, tgt, &Val{T: tt, S: app(valf, e.S)})
		st.guard = st.guard[:len(st.guard)-1]
		return &Val{T: types.Typ[types.Bool], S: ok}
	}

	// ---- net/http.Header: map[string][]string with canonicalised keys (canon is an uninterpreted function)
	canon := func(u *Unit, k string) string { return u.canonHeader(k) }
	hdrMap := func(u *Unit, recv *Val) types.Type { return types.Unalias(recv.T).Underlying() }
	models["(net/http.Header).Set"] = func(u *Unit, st *State, x *ast.CallExpr, recv *Val, fn *types.Func) *Val {
		k, v := u.eval(st, x.Args[0]), u.eval(st, x.Args[1])
		mt := hdrMap(u, recv)
		st.assume(app("distinct", recv.S, "0"))
		sl := u.zeroVal(st, mt.(*types.Map).Elem())
		sl.Arr = app("store", sl.Arr, "0", v.S)
		sl.Len, sl.Nil = "1", "false"
		u.mapStore(st, mt, recv.S, canon(u, k.S), sl)
		return &Val{}
	}
	models["(net/http.Header).Add"] = func(u *Unit, st *State, x *ast.CallExpr, recv *Val, fn *types.Func) *Val {
		k, v := u.eval(st, x.Args[0]), u.eval(st, x.Args[1])
		mt := hdrMap(u, recv)
		st.assume(app("distinct", recv.S, "0"))
		cur, _ := u.mapLoad(st, mt, recv.S, canon(u, k.S))
		nv := &Val{T: cur.T, Arr: app("store", cur.Arr, cur.Len, v.S), Len: app("+", cur.Len, "1"), Nil: "false"}
		u.mapStore(st, mt, recv.S, canon(u, k.S), nv)
		return &Val{}
	}
	models["(net/http.Header).Del"] = func(u *Unit, st *State, x *ast.CallExpr, recv *Val, fn *types.Func) *Val {
		k := u.eval(st, x.Args[0])
		mt := hdrMap(u, recv)
		st.guard = append(st.guard, app("distinct", recv.S, "0"))
		u.mapDelete(st, mt, recv.S, canon(u, k.S))
		st.guard = st.guard[:len(st.guard)-1]
		return &Val{}
	}
	models["(net/http.Header).Get"] = func(u *Unit, st *State, x *ast.CallExpr, recv *Val, fn *types.Func) *Val {
		k := u.eval(st, x.Args[0])
		mt := hdrMap(u, recv)
		cur, ok := u.mapLoad(st, mt, recv.S, canon(u, k.S))
		has := tAnd(app("distinct", recv.S, "0"), ok, app(">", cur.Len, "0"))
		return &Val{T: types.Typ[types.String], S: tIte(has, app("select", cur.Arr, "0"), `""`)}
	}
	models["(net/http.Header).Values"] = func(u *Unit, st *State, x *ast.CallExpr, recv *Val, fn *types.Func) *Val {
		k := u.eval(st, x.Args[0])
		mt := hdrMap(u, recv)
		cur, _ := u.mapLoad(st, mt, recv.S, canon(u, k.S))
		return cur
	}

	// ---- http.NewRequestWithContext: a fresh request with a fresh empty header map, or an error
	newReq := func(u *Unit, st *State, x *ast.CallExpr, _ *Val, fn *types.Func) *Val {
		u.trusted["model: http.NewRequest[WithContext] returns (fresh *Request with Method, Body set and an empty Header, nil) or (nil, err)"] = true
		var args []*Val
		for _, a := range x.Args {
			args = append(args, u.eval(st, a))
		}
		tp := u.typeOf(x).(*types.Tuple)
		rt := tp.At(0).Type()
		errV := u.freshVal(st, tp.At(1).Type(), "newreq.err")
		r := u.alloc(st)
		hm := fieldType(rt, "Header")
		if hm != nil {
			mref := u.mapNew(st, types.Unalias(hm).Underlying())
			u.storeField(st, r, rt, "Header", &Val{T: hm, S: mref})
		}
		off := 0
		if len(args) == 4 {
			off = 1
			u.storeField(st, r, rt, "ctx", args[0])
		}
		u.storeField(st, r, rt, "Method", args[off])
		if bt := fieldType(rt, "Body"); bt != nil {
			u.storeField(st, r, rt, "Body", &Val{T: bt, S: args[off+2].S})
		}
		// the URL string is recorded in a ghost field for call-site obligations
		if _, ok := u.eng.cs.GhostFields["reqURL"]; ok {
			h := u.heapGet(st, "G!reqURL", SStr)
			u.heapSet(st, "G!reqURL", SStr, app("store", h, r, args[off+1].S))
		}
		res := tIte(tEq(errV.S, "0"), r, "0")
		return &Val{T: tp, Tuple: []*Val{{T: rt, S: res}, errV}}
	}
	models["net/http.NewRequestWithContext"] = newReq
	// r.WithContext(ctx): a shallow copy of the request (same URL, Header, Body, ...) carrying the new context
	models["(*net/http.Request).WithContext"] = func(u *Unit, st *State, x *ast.CallExpr, recv *Val, fn *types.Func) *Val {
		u.trusted["model: (*http.Request).WithContext returns a shallow copy of the request (every field equal, new identity)"] = true
		for _, a := range x.Args {
			u.eval(st, a)
		}
		if recv == nil || recv.S == "" {
			return u.freshVal(st, u.typeOf(x), "withctx")
		}
		old := u.loadStruct(st, recv.S, recv.T)
		r := u.alloc(st)
		u.storeStruct(st, r, recv.T, old)
		// ghost fields attached to the request object travel with the copy
		for name, gf := range u.eng.cs.GhostFields {
			gp := u.eng.pkgByPath(gf.Pkg)
			if gp == nil {
				gp = u.pkg
			}
			srt := sortOf(u.resolveType(gp, gf.Type))
			h := u.heapGet(st, "G!"+name, srt)
			u.heapSet(st, "G!"+name, srt, app("store", h, r, app("select", h, recv.S)))
		}
		return &Val{T: recv.T, S: r}
	}
	models["net/http.NewRequest"] = newReq

	// ---- fmt.Errorf / errors.New: fresh non-nil error with a message text and (for %w) a wrapped error
	models["errors.New"] = func(u *Unit, st *State, x *ast.CallExpr, _ *Val, fn *types.Func) *Val {
		msg := u.eval(st, x.Args[0])
		r := u.newError(st)
		st.assumeFact(tEq(app(u.errTextFn(), r), msg.S))
		st.assumeFact(tEq(app(u.wrapsFn(), r), "0"))
		return &Val{T: u.typeOf(x), S: r}
	}
	models["fmt.Errorf"] = func(u *Unit, st *State, x *ast.CallExpr, _ *Val, fn *types.Func) *Val {
		u.trusted["model: fmt.Errorf yields a fresh error; %w wraps its argument (errors.Is/As see through it); message text = format with each verb rendered as an unknown string (%w,%v,%s of an error: its text); fmt's own error types are not net.Error / syscall.Errno / *net.OpError"] = true
		var args []*Val
		for _, a := range x.Args {
			args = append(args, u.eval(st, a))
		}
		r := u.newError(st)
		format, isConst := "", false
		if tv, ok := u.info.Types[x.Args[0]]; ok && tv.Value != nil {
			format, isConst = constantString(tv.Value), true
		}
		wrapped := "0"
		if isConst {
			pieces, verbs := splitFormat(format)
			text := strLit(pieces[0])
			lowf := u.d.fun("fn!strings.ToLower", []string{SStr}, SStr)
			ltext := strLit(strings.ToLower(pieces[0]))
			for i, vb := range verbs {
				var part string
				ai := i + 1
				switch {
				case ai < len(args) && (vb == 'w' || vb == 'v' || vb == 's') && types.TypeString(args[ai].T, nil) == "error" || (ai < len(args) && vb == 'w'):
					part = app(u.errTextFn(), args[ai].S)
					if vb == 'w' {
						wrapped = args[ai].S
					}
				case ai < len(args) && (vb == 's' || vb == 'v') && kindOf(args[ai].T) == kString:
					part = args[ai].S
				case vb == 'f' || vb == 'd':
					// A rendered number consists of [0-9.+-] only. Substring tests against patterns that contain none
					// of these characters cannot overlap it, so it is represented by the single digit "0".
					u.trusted["model: numeric printf verbs render as \"0\" in error texts (sound for substring tests with patterns free of [0-9.+-])"] = true
					part = "\"0\""
				default:
					part = u.d.fresh("verbtext", SStr)
				}
				text = app("str.++", text, part, strLit(pieces[i+1]))
				lpart := app(lowf, part)
				if part == "\"0\"" {
					lpart = part
				}
				ltext = app("str.++", ltext, lpart, strLit(strings.ToLower(pieces[i+1])))
			}
			st.assumeFact(tEq(app(u.errTextFn(), r), text))
			// strings.ToLower distributes over the pieces (literal pieces lowered by govc, digits unchanged)
			st.assumeFact(tEq(app(lowf, app(u.errTextFn(), r)), ltext))
		}
		st.assumeFact(tEq(app(u.wrapsFn(), r), wrapped))
		return &Val{T: u.typeOf(x), S: r}
	}

	// ---- JSON decoding into a Go value: whatever the bytes are, the decoder leaves SOME well-typed value in the target
	// (and returns nil or an error). Modelled as: every field of the target struct (or the target local itself) gets
	// an arbitrary value of its type; decoded pointers are nil or freshly allocated objects, whose own contents are
	// arbitrary (nothing is known about memory above the old allocation watermark), except that decoded numbers are finite
	// (JSON has no NaN/Inf). Nothing else changes. This covers
	// every input byte string.
	unmarshal := func(argIdx int) func(u *Unit, st *State, x *ast.CallExpr, recv *Val, fn *types.Func) *Val {
		return func(u *Unit, st *State, x *ast.CallExpr, recv *Val, fn *types.Func) *Val {
			u.trusted["model: JSON decoding (Unmarshal/Decode) leaves an arbitrary well-typed value in its target and returns nil or an error; it does not panic"] = true
			for i, a := range x.Args {
				if i != argIdx {
					u.eval(st, a)
				}
			}
			var target *Val
			if argIdx < len(x.Args) {
				target = u.eval(st, x.Args[argIdx])
			}
			wmOld := st.wm
			st.wm = u.bumpWM(st)
			decoded := func(t types.Type, hint string) *Val {
				nv := u.freshVal(st, t, hint)
				switch kindOf(t) {
				case kFloat:
					// JSON numbers are finite (the decoder rejects anything else)
					st.assumeFact(tAnd(tNot(app("fp.isNaN", nv.S)), tNot(app("fp.isInfinite", nv.S))))
				case kRef:
					if !isIface(t) {
						// a decoded pointer / map is nil or an object the decoder has just allocated
						st.assumeFact(tOr(tEq(nv.S, "0"), tAnd(app(">", nv.S, wmOld), app("<=", nv.S, st.wm))))
						if pt, isPtr := types.Unalias(t).Underlying().(*types.Pointer); isPtr && kindOf(pt.Elem()) == kFloat {
							pv := u.loadThrough(st, nv)
							st.assumeFact(tImp(app("distinct", nv.S, "0"), tAnd(tNot(app("fp.isNaN", pv.S)), tNot(app("fp.isInfinite", pv.S)))))
						}
					}
				case kSlice:
					if et := elemType(t); et != nil && kindOf(et) == kRef && !isIface(et) && nv.Arr != "" {
						bvCounter++
						q := fmt.Sprintf("dj!%d", bvCounter)
						st.assumeFact(fmt.Sprintf("(forall ((%s Int)) (! (or (= (select %s %s) 0) (and (> (select %s %s) %s) (<= (select %s %s) %s))) :pattern ((select %s %s))))", q, nv.Arr, q, nv.Arr, q, wmOld, nv.Arr, q, st.wm, nv.Arr, q))
					}
				}
				return nv
			}
			if target != nil && target.S != "" {
				if inner, ok := u.ptrs[target.S]; ok {
					// pointer to a local that is not a struct (map, slice, interface, scalar): the local gets an arbitrary value
					u.assign(st, inner, decoded(u.typeOf(inner), "decoded"))
				} else if sd := structOf(target.T); sd != nil {
					if _, isPtr := types.Unalias(target.T).Underlying().(*types.Pointer); isPtr {
						for i := 0; i < sd.NumFields(); i++ {
							f := sd.Field(i)
							if kindOf(f.Type()) == kUnit {
								continue
							}
							u.storeField(st, target.S, target.T, f.Name(), decoded(f.Type(), "decoded."+f.Name()))
						}
					}
				} else {
					u.note("JSON decoding into " + types.TypeString(target.T, nil) + ": target not modelled, heap havocked")
					u.havocAllHeap(st, "JSON decoding")
				}
			}
			return u.freshVal(st, u.typeOf(x), "decode.err")
		}
	}
	for _, n := range []string{"(github.com/json-iterator/go.API).Unmarshal", "encoding/json.Unmarshal", "gopkg.in/yaml.v3.Unmarshal"} {
		models[n] = unmarshal(1)
	}
	for _, n := range []string{"(github.com/json-iterator/go.API).UnmarshalFromString"} {
		models[n] = unmarshal(1)
	}
	for _, n := range []string{"(*encoding/json.Decoder).Decode", "(*github.com/json-iterator/go.Decoder).Decode"} {
		models[n] = unmarshal(0)
	}

	// fmt.Sprintf with a constant format: literal pieces are exact; a plain %s (or %v) of a string argument is the
	// argument itself; every other verb renders as an unknown string (so nothing is assumed about it).
	models["fmt.Sprintf"] = func(u *Unit, st *State, x *ast.CallExpr, _ *Val, fn *types.Func) *Val {
		var args []*Val
		for _, a := range x.Args {
			args = append(args, u.eval(st, a))
		}
		tv, ok := u.info.Types[x.Args[0]]
		if !ok || tv.Value == nil {
			return u.freshVal(st, types.Typ[types.String], "sprintf")
		}
		u.trusted["model: fmt.Sprintf with a constant format = its literal pieces joined with the rendered arguments; a flag-free %s/%v of a string is the string itself, every other verb renders as an unknown string"] = true
		format := constantString(tv.Value)
		pieces, verbs := splitFormat(format)
		plain := plainVerbs(format)
		parts := []string{strLit(pieces[0])}
		for i, vb := range verbs {
			ai := i + 1
			if ai < len(args) && (vb == 's' || vb == 'v') && plain[i] && kindOf(args[ai].T) == kString {
				parts = append(parts, args[ai].S)
			} else {
				parts = append(parts, u.d.fresh("verbtext", SStr))
			}
			parts = append(parts, strLit(pieces[i+1]))
		}
		if len(parts) == 1 {
			return &Val{T: types.Typ[types.String], S: parts[0]}
		}
		return &Val{T: types.Typ[types.String], S: app("str.++", parts...)}
	}

	// ---- byte readers: ghost field "remaining" = abstract identity of the bytes still to be read
	remH := func(u *Unit, st *State) string { return u.heapGet(st, "G!remaining", SInt) }
	bytesContent := func(u *Unit, v *Val) string {
		f := u.d.fun("content!bytes", []string{arrSort(SInt, SInt), SInt}, SInt)
		return app(f, v.Arr, v.Len)
	}
	models["io.ReadAll"] = func(u *Unit, st *State, x *ast.CallExpr, _ *Val, fn *types.Func) *Val {
		u.trusted["model: io.ReadAll returns the reader's remaining bytes (content identity) and leaves it empty, or an error"] = true
		rd := u.eval(st, x.Args[0])
		tp := u.typeOf(x).(*types.Tuple)
		bs := u.freshVal(st, tp.At(0).Type(), "readall")
		errV := u.freshVal(st, tp.At(1).Type(), "readall.err")
		h := remH(u, st)
		st.assumeFact(tImp(tEq(errV.S, "0"), tAnd(tEq(bytesContent(u, bs), app("select", h, rd.S)), tNot(bs.Nil))))
		u.heapSet(st, "G!remaining", SInt, app("store", h, rd.S, "0"))
		return &Val{T: tp, Tuple: []*Val{bs, errV}}
	}
	// ownership (device 3): ghost "backing" of a reader = the object whose memory it reads from (0 = private
	// memory); ghost "released" of a pooled object = it has been handed back to its pool.
	hasOwn := func(u *Unit) bool {
		_, a := u.eng.cs.GhostFields["backing"]
		_, b := u.eng.cs.GhostFields["released"]
		return a && b
	}
	regionOf := func(u *Unit, arr string) string {
		return app(u.d.fun("region!slice", []string{arrSort(SInt, SInt)}, SInt), arr)
	}
	setBacking := func(u *Unit, st *State, r, val string) {
		if hasOwn(u) {
			h := u.heapGet(st, "G!backing", SInt)
			u.heapSet(st, "G!backing", SInt, app("store", h, r, val))
		}
	}
	getBacking := func(u *Unit, st *State, r string) string {
		return app("select", u.heapGet(st, "G!backing", SInt), r)
	}
	models["io.Pipe"] = func(u *Unit, st *State, x *ast.CallExpr, _ *Val, fn *types.Func) *Val {
		tp := u.typeOf(x).(*types.Tuple)
		return &Val{T: tp, Tuple: []*Val{{T: tp.At(0).Type(), S: u.alloc(st)}, {T: tp.At(1).Type(), S: u.alloc(st)}}}
	}
	for _, n := range []string{"bytes.NewBuffer", "bytes.NewBufferString"} {
		models[n] = func(u *Unit, st *State, x *ast.CallExpr, _ *Val, fn *types.Func) *Val {
			for _, a := range x.Args {
				u.eval(st, a)
			}
			return &Val{T: u.typeOf(x), S: u.alloc(st)} // a new, non-nil buffer
		}
	}
	models["bytes.NewReader"] = func(u *Unit, st *State, x *ast.CallExpr, _ *Val, fn *types.Func) *Val {
		u.trusted["model: bytes.NewReader / io.NopCloser / io.MultiReader create a fresh reader over the same content and the same backing memory"] = true
		b := u.eval(st, x.Args[0])
		r := u.alloc(st)
		u.heapSet(st, "G!remaining", SInt, app("store", remH(u, st), r, bytesContent(u, b)))
		if hasOwn(u) && b.Arr != "" {
			setBacking(u, st, r, regionOf(u, b.Arr))
		}
		return &Val{T: u.typeOf(x), S: r}
	}
	models["io.NopCloser"] = func(u *Unit, st *State, x *ast.CallExpr, _ *Val, fn *types.Func) *Val {
		u.trusted["model: bytes.NewReader / io.NopCloser / io.MultiReader create a fresh reader over the same content and the same backing memory"] = true
		rd := u.eval(st, x.Args[0])
		r := u.alloc(st)
		h := remH(u, st)
		u.heapSet(st, "G!remaining", SInt, app("store", h, r, app("select", h, rd.S)))
		if hasOwn(u) {
			setBacking(u, st, r, getBacking(u, st, rd.S))
		}
		return &Val{T: u.typeOf(x), S: r}
	}
	models["io.MultiReader"] = func(u *Unit, st *State, x *ast.CallExpr, _ *Val, fn *types.Func) *Val {
		u.trusted["model: bytes.NewReader / io.NopCloser / io.MultiReader create a fresh reader over the same content and the same backing memory"] = true
		var rs []*Val
		for _, a := range x.Args {
			rs = append(rs, u.eval(st, a))
		}
		r := u.alloc(st)
		if hasOwn(u) && len(rs) > 0 {
			// reads from the first part's memory first (a released part anywhere makes the whole unsafe: first non-private wins)
			b := "0"
			for i := len(rs) - 1; i >= 0; i-- {
				bi := getBacking(u, st, rs[i].S)
				b = tIte(app("distinct", bi, "0"), bi, b)
			}
			setBacking(u, st, r, b)
		}
		return &Val{T: u.typeOf(x), S: r}
	}
	models["(*bytes.Buffer).Bytes"] = func(u *Unit, st *State, x *ast.CallExpr, recv *Val, fn *types.Func) *Val {
		u.trusted["model: (*bytes.Buffer).Bytes returns a slice into the buffer's own memory"] = true
		bs := u.freshVal(st, u.typeOf(x), "bufbytes")
		if hasOwn(u) {
			st.assumeFact(tEq(regionOf(u, bs.Arr), recv.S))
		}
		return bs
	}
	poolPfx := "(*github.com/thushan/olla/pkg/pool.Pool)."
	models[poolPfx+"Get"] = func(u *Unit, st *State, x *ast.CallExpr, recv *Val, fn *types.Func) *Val {
		u.trusted["model: pool.Get hands out an object not currently in the pool (released := false); pool.Put releases it"] = true
		v := u.callResult(st, u.typeOf(x), "pooled")
		if hasOwn(u) && kindOf(v.T) == kRef {
			st.assumeFact(app("distinct", v.S, "0"))
			h := u.heapGet(st, "G!released", SBool)
			u.heapSet(st, "G!released", SBool, app("store", h, v.S, "false"))
		}
		return v
	}
	models[poolPfx+"Put"] = func(u *Unit, st *State, x *ast.CallExpr, recv *Val, fn *types.Func) *Val {
		u.trusted["model: pool.Get hands out an object not currently in the pool (released := false); pool.Put releases it"] = true
		v := u.eval(st, x.Args[0])
		if hasOwn(u) && kindOf(v.T) == kRef {
			h := u.heapGet(st, "G!released", SBool)
			u.heapSet(st, "G!released", SBool, app("store", h, v.S, "true"))
		}
		return &Val{}
	}

	models["golang.org/x/time/rate.NewLimiter"] = func(u *Unit, st *State, x *ast.CallExpr, _ *Val, fn *types.Func) *Val {
		u.trusted["model: rate.NewLimiter returns a fresh limiter (token-bucket arithmetic is golang.org/x/time/rate, not modelled)"] = true
		for _, a := range x.Args {
			u.eval(st, a)
		}
		return &Val{T: u.typeOf(x), S: u.alloc(st)}
	}

	// ---- context
	models["(context.Context).Err"] = func(u *Unit, st *State, x *ast.CallExpr, recv *Val, fn *types.Func) *Val {
		// the context package's contract: nil while not done, then Canceled or DeadlineExceeded
		u.trusted["model: (context.Context).Err returns nil, context.Canceled or context.DeadlineExceeded"] = true
		v := u.freshVal(st, u.typeOf(x), "ctxerr")
		c1 := u.d.constant("sentinel!context.Canceled", SInt)
		c2 := u.d.constant("sentinel!context.DeadlineExceeded", SInt)
		for _, c := range []string{c1, c2} {
			u.sentinels[c] = true
			u.d.axiom(app(">", c, "0"))
			u.d.axiom(app("<=", c, "|wm@0|"))
		}
		st.assumeFact(tOr(tEq(v.S, "0"), tEq(v.S, c1), tEq(v.S, c2)))
		return v
	}

	// ---- xsync.Map
	xm := "(*github.com/puzpuzpuz/xsync/v4.Map)."
	models[xm+"Load"] = func(u *Unit, st *State, x *ast.CallExpr, recv *Val, fn *types.Func) *Val {
		u.trusted["model: xsync.Map is a linearizable map (Load/Store/Delete/LoadOrStore/LoadOrCompute/Range)"] = true
		if se, ok := ast.Unparen(x.Fun).(*ast.SelectorExpr); ok {
			u.atomicAccess(st, se.X, "mapop")
		}
		kt, vt, _ := xsyncMapTypes(recv.T)
		k := u.convertForAssign(st, u.eval(st, x.Args[0]), kt)
		v, ok := u.xmapLoad(st, kt, vt, recv.S, u.scalar(st, k))
		return &Val{T: u.typeOf(x), Tuple: []*Val{v, {T: types.Typ[types.Bool], S: ok}}}
	}
	models[xm+"Store"] = func(u *Unit, st *State, x *ast.CallExpr, recv *Val, fn *types.Func) *Val {
		u.trusted["model: xsync.Map is a linearizable map (Load/Store/Delete/LoadOrStore/LoadOrCompute/Range)"] = true
		if se, ok := ast.Unparen(x.Fun).(*ast.SelectorExpr); ok {
			u.atomicAccess(st, se.X, "mapop")
		}
		kt, vt, _ := xsyncMapTypes(recv.T)
		k := u.convertForAssign(st, u.eval(st, x.Args[0]), kt)
		v := u.convertForAssign(st, u.eval(st, x.Args[1]), vt)
		u.xmapStore(st, kt, vt, recv.S, u.scalar(st, k), v)
		return &Val{}
	}
	models[xm+"Delete"] = func(u *Unit, st *State, x *ast.CallExpr, recv *Val, fn *types.Func) *Val {
		u.trusted["model: xsync.Map is a linearizable map (Load/Store/Delete/LoadOrStore/LoadOrCompute/Range)"] = true
		if se, ok := ast.Unparen(x.Fun).(*ast.SelectorExpr); ok {
			u.atomicAccess(st, se.X, "mapop")
		}
		kt, vt, _ := xsyncMapTypes(recv.T)
		k := u.convertForAssign(st, u.eval(st, x.Args[0]), kt)
		u.xmapDelete(st, kt, vt, recv.S, u.scalar(st, k))
		return &Val{}
	}
	models[xm+"LoadOrStore"] = func(u *Unit, st *State, x *ast.CallExpr, recv *Val, fn *types.Func) *Val {
		u.trusted["model: xsync.Map is a linearizable map (Load/Store/Delete/LoadOrStore/LoadOrCompute/Range)"] = true
		if se, ok := ast.Unparen(x.Fun).(*ast.SelectorExpr); ok {
			u.atomicAccess(st, se.X, "mapop")
		}
		kt, vt, _ := xsyncMapTypes(recv.T)
		k := u.convertForAssign(st, u.eval(st, x.Args[0]), kt)
		nv := u.convertForAssign(st, u.eval(st, x.Args[1]), vt)
		ks := u.scalar(st, k)
		cur, ok := u.xmapLoad(st, kt, vt, recv.S, ks)
		st.guard = append(st.guard, tNot(ok))
		u.xmapStore(st, kt, vt, recv.S, ks, nv)
		st.guard = st.guard[:len(st.guard)-1]
		res := u.fromScalar(st, tIte(ok, u.scalar(st, cur), u.scalar(st, nv)), vt)
		return &Val{T: u.typeOf(x), Tuple: []*Val{res, {T: types.Typ[types.Bool], S: ok}}}
	}
	models[xm+"LoadOrCompute"] = func(u *Unit, st *State, x *ast.CallExpr, recv *Val, fn *types.Func) *Val {
		u.trusted["model: xsync.Map is a linearizable map (Load/Store/Delete/LoadOrStore/LoadOrCompute/Range)"] = true
		if se, ok := ast.Unparen(x.Fun).(*ast.SelectorExpr); ok {
			u.atomicAccess(st, se.X, "mapop")
		}
		kt, vt, _ := xsyncMapTypes(recv.T)
		k := u.convertForAssign(st, u.eval(st, x.Args[0]), kt)
		ks := u.scalar(st, k)
		cur, ok := u.xmapLoad(st, kt, vt, recv.S, ks)
		// the compute function: a literal whose body is a single `return value, cancel`
		var nv *Val
		cancel := "false"
		if lit, isLit := ast.Unparen(x.Args[1]).(*ast.FuncLit); isLit && len(lit.Body.List) >= 1 {
			// straight-line compute function: simple statements followed by `return value, cancel`
			n := len(lit.Body.List)
			simple := true
			for _, s0 := range lit.Body.List[:n-1] {
				switch s0.(type) {
				case *ast.AssignStmt, *ast.DeclStmt, *ast.ExprStmt:
				default:
					simple = false
				}
			}
			if rs, isRet := lit.Body.List[n-1].(*ast.ReturnStmt); simple && isRet && len(rs.Results) == 2 {
				st.guard = append(st.guard, tNot(ok))
				for _, s0 := range lit.Body.List[:n-1] {
					u.exec(st, s0) // assignments / declarations do not fork
				}
				nv = u.eval(st, rs.Results[0])
				cancel = u.eval(st, rs.Results[1]).S
				st.guard = st.guard[:len(st.guard)-1]
			}
		}
		if nv == nil {
			u.eval(st, x.Args[1])
			u.note("LoadOrCompute with a non-trivial compute function: computed value is arbitrary")
			nv = u.freshVal(st, vt, "computed")
			cancel = u.d.fresh("cancel", SBool)
		}
		st.guard = append(st.guard, tAnd(tNot(ok), tNot(cancel)))
		u.xmapStore(st, kt, vt, recv.S, ks, nv)
		st.guard = st.guard[:len(st.guard)-1]
		res := u.fromScalar(st, tIte(ok, u.scalar(st, cur), u.scalar(st, nv)), vt)
		return &Val{T: u.typeOf(x), Tuple: []*Val{res, {T: types.Typ[types.Bool], S: ok}}}
	}
	models[xm+"Size"] = func(u *Unit, st *State, x *ast.CallExpr, recv *Val, fn *types.Func) *Val {
		r := u.freshVal(st, types.Typ[types.Int], "size")
		st.assumeFact(app(">=", r.S, "0"))
		return r
	}
	stmtModels[xm+"Range"] = stmtXMapRange
	models["github.com/puzpuzpuz/xsync/v4.NewMap"] = func(u *Unit, st *State, x *ast.CallExpr, _ *Val, fn *types.Func) *Val {
		u.trusted["model: xsync.Map is a linearizable map (Load/Store/Delete/LoadOrStore/LoadOrCompute/Range)"] = true
		t := u.typeOf(x)
		kt, vt, ok := xsyncMapTypes(t)
		r := u.alloc(st)
		if ok {
			dom, _, ks, _ := u.xmapNames(kt, vt)
			hd := u.heapGet(st, dom, arrSort(ks, SBool))
			u.heapSet(st, dom, arrSort(ks, SBool), app("store", hd, r, fmt.Sprintf("((as const %s) false)", arrSort(ks, SBool))))
		}
		return &Val{T: t, S: r}
	}
	models["github.com/puzpuzpuz/xsync/v4.NewCounter"] = func(u *Unit, st *State, x *ast.CallExpr, _ *Val, fn *types.Func) *Val {
		return &Val{T: u.typeOf(x), S: "0"}
	}

	// xsync.Counter: an integer owned by the field that holds it
	xc := "(*github.com/puzpuzpuz/xsync/v4.Counter)."
	counterNote := "model: a *xsync.Counter held in a struct field is an atomic int64 owned by that field (never shared between fields)"
	models[xc+"Value"] = func(u *Unit, st *State, x *ast.CallExpr, recv *Val, fn *types.Func) *Val {
		u.trusted[counterNote] = true
		v := u.atomicMethodRead(st, x)
		return &Val{T: types.Typ[types.Int64], S: v.S}
	}
	counterAdd := func(delta func(u *Unit, st *State, x *ast.CallExpr) string) modelFn {
		return func(u *Unit, st *State, x *ast.CallExpr, recv *Val, fn *types.Func) *Val {
			u.trusted[counterNote] = true
			cur := u.atomicMethodRead(st, x)
			u.atomicMethodWrite(st, x, &Val{T: cur.T, S: app("+", cur.S, delta(u, st, x))})
			return &Val{}
		}
	}
	models[xc+"Inc"] = counterAdd(func(u *Unit, st *State, x *ast.CallExpr) string { return "1" })
	models[xc+"Dec"] = counterAdd(func(u *Unit, st *State, x *ast.CallExpr) string { return "(- 1)" })
	models[xc+"Add"] = counterAdd(func(u *Unit, st *State, x *ast.CallExpr) string { return u.eval(st, x.Args[0]).S })
	models[xc+"Reset"] = func(u *Unit, st *State, x *ast.CallExpr, recv *Val, fn *types.Func) *Val {
		cur := u.atomicMethodRead(st, x)
		u.atomicMethodWrite(st, x, &Val{T: cur.T, S: "0"})
		return &Val{}
	}

	// sync.Once.Do(f): runs f at most once -- nondeterministically here
	stmtModels["(*sync.Once).Do"] = func(u *Unit, st *State, x *ast.CallExpr, recvExpr ast.Expr, lhs []ast.Expr) ([]*State, bool) {
		lit, ok := ast.Unparen(x.Args[0]).(*ast.FuncLit)
		if !ok {
			return nil, false
		}
		skip := st.clone()
		outs := u.inlineLit(st, lit, nil, nil)
		return append(outs, skip), true
	}
}

func lockKey(x *ast.CallExpr) string {
	if s, ok := ast.Unparen(x.Fun).(*ast.SelectorExpr); ok {
		return exprString(s.X)
	}
	return "?"
}

func (u *Unit) clockNow(st *State) *Val {
	prev := st.gvars["now"]
	t := u.d.fresh("now", SInt)
	if prev != nil {
		st.assumeFact(app(">=", t, prev.S))
	}
	st.assumeFact(app(">", t, "0"))
	nv := &Val{T: u.eng.timeType(), S: t}
	st.gvars["now"] = nv
	return nv
}

// atomicRead/Write operate on the lvalue behind &x.f
func (u *Unit) atomicTarget(e ast.Expr) ast.Expr {
	e = ast.Unparen(e)
	if ue, ok := e.(*ast.UnaryExpr); ok {
		return ue.X
	}
	return nil
}

func (u *Unit) atomicRead(st *State, ptrExpr ast.Expr, fn *types.Func) *Val {
	if lv := u.atomicTarget(ptrExpr); lv != nil {
		u.inAtomic++
		v := u.eval(st, lv)
		u.inAtomic--
		u.atomicAccess(st, lv, "read")
		return v
	}
	p := u.eval(st, ptrExpr)
	return u.loadThrough(st, p)
}

func (u *Unit) atomicWrite(st *State, ptrExpr ast.Expr, v *Val) {
	if lv := u.atomicTarget(ptrExpr); lv != nil {
		u.atomicAccess(st, lv, "write")
		u.inAtomic++
		u.assign(st, lv, v)
		u.inAtomic--
		return
	}
	p := u.eval(st, ptrExpr)
	u.storeThrough(st, p, v)
}

func (u *Unit) atomicMethodRead(st *State, x *ast.CallExpr) *Val {
	sel := ast.Unparen(x.Fun).(*ast.SelectorExpr)
	u.atomicAccess(st, sel.X, "read")
	u.inAtomic++
	defer func() { u.inAtomic-- }()
	return u.eval(st, sel.X)
}

func (u *Unit) atomicMethodWrite(st *State, x *ast.CallExpr, v *Val) {
	sel := ast.Unparen(x.Fun).(*ast.SelectorExpr)
	u.atomicAccess(st, sel.X, "write")
	nv := *v
	nv.T = u.typeOf(sel.X)
	u.inAtomic++
	u.assign(st, sel.X, &nv)
	u.inAtomic--
}

// atomicAccess counts atomic accesses per field for the atomic-once device.
func (u *Unit) atomicAccess(st *State, lv ast.Expr, kind string) {
	key := exprString(lv)
	st.atomicOps = append(st.atomicOps, kind+" "+key)
}

// ---------------------------------------------------------------------------
// xsync.Map as a mathematical map

func xsyncMapTypes(t types.Type) (k, v types.Type, ok bool) {
	t = types.Unalias(t)
	if p, isP := t.(*types.Pointer); isP {
		t = types.Unalias(p.Elem())
	}
	n, isN := t.(*types.Named)
	if !isN || n.Obj().Pkg() == nil || !strings.HasSuffix(n.Obj().Pkg().Path(), "xsync/v4") || n.Obj().Name() != "Map" {
		return nil, nil, false
	}
	ta := n.TypeArgs()
	if ta == nil || ta.Len() != 2 {
		return nil, nil, false
	}
	return ta.At(0), ta.At(1), true
}

func (u *Unit) xmapNames(kt, vt types.Type) (dom, val, ks, vs string) {
	ks, vs = sortOf(kt), sortOf(vt)
	key := "M!" + ks + "!" + vs
	return key + ".dom", key + ".val", ks, vs
}

func (u *Unit) xmapLoad(st *State, kt, vt types.Type, ref, key string) (*Val, string) {
	dom, val, ks, vs := u.xmapNames(kt, vt)
	hd := u.heapGet(st, dom, arrSort(ks, SBool))
	hv := u.heapGet(st, val, arrSort(ks, vs))
	ok := app("select", app("select", hd, ref), key)
	raw := app("select", app("select", hv, ref), key)
	zero := u.scalar(st, u.zeroVal(st, vt))
	v := u.fromScalar(st, tIte(ok, raw, zero), vt)
	if kindOf(vt) == kRef {
		st.assumeFact(app("<=", v.S, st.wm))
	}
	return v, ok
}

func (u *Unit) xmapStore(st *State, kt, vt types.Type, ref, key string, v *Val) {
	dom, val, ks, vs := u.xmapNames(kt, vt)
	hd := u.heapGet(st, dom, arrSort(ks, SBool))
	hv := u.heapGet(st, val, arrSort(ks, vs))
	u.heapSet(st, dom, arrSort(ks, SBool), app("store", hd, ref, app("store", app("select", hd, ref), key, "true")))
	u.heapSet(st, val, arrSort(ks, vs), app("store", hv, ref, app("store", app("select", hv, ref), key, u.scalar(st, v))))
}

func (u *Unit) xmapDelete(st *State, kt, vt types.Type, ref, key string) {
	dom, _, ks, _ := u.xmapNames(kt, vt)
	hd := u.heapGet(st, dom, arrSort(ks, SBool))
	u.heapSet(st, dom, arrSort(ks, SBool), app("store", hd, ref, app("store", app("select", hd, ref), key, "false")))
}

// m.Range(func(k, v) bool { ... }): a loop over an arbitrary enumeration of the map.
func stmtXMapRange(u *Unit, st *State, x *ast.CallExpr, recvExpr ast.Expr, lhs []ast.Expr) ([]*State, bool) {
	lit, ok := ast.Unparen(x.Args[0]).(*ast.FuncLit)
	if !ok {
		return nil, false
	}
	u.trusted["model: xsync.Map is a linearizable map (Load/Store/Delete/LoadOrStore/LoadOrCompute/Range)"] = true
	recv := u.eval(st, recvExpr)
	kt, vt, ok2 := xsyncMapTypes(recv.T)
	if !ok2 {
		return nil, false
	}
	n := u.litLoopOrd(lit)
	ls := u.loopSpec(n)
	dom, val, ks, vs := u.xmapNames(kt, vt)
	dom0 := u.d.fresh("rangedom", arrSort(ks, SBool))
	st.assumeFact(tEq(dom0, app("select", u.heapGet(st, dom, arrSort(ks, SBool)), recv.S)))
	val0 := u.d.fresh("rangeval", arrSort(ks, vs))
	st.assumeFact(tEq(val0, app("select", u.heapGet(st, val, arrSort(ks, vs)), recv.S)))
	var params []*types.Var
	for _, f := range lit.Type.Params.List {
		for _, nm := range f.Names {
			o, _ := u.info.Defs[nm].(*types.Var)
			params = append(params, o)
		}
	}
	bind := func(s *State, seen string) string {
		k := u.freshVal(s, kt, "rk")
		s.assume(tAnd(app("select", dom0, k.S), tNot(app("select", seen, k.S))))
		v := u.fromScalar(s, app("select", val0, k.S), vt)
		if len(params) > 0 && params[0] != nil {
			kk := *k
			kk.T = params[0].Type()
			s.vars[params[0]] = &kk
		}
		if len(params) > 1 && params[1] != nil {
			vv := *v
			vv.T = params[1].Type()
			s.vars[params[1]] = &vv
		}
		return k.S
	}
	// one iteration: returns states with ctl "" (continue: closure returned true) or "break" (returned false)
	iterate := func(s *State) []*State {
		outs := u.inlineBody(s, lit.Body, nil, nil)
		var res []*State
		for _, o := range outs {
			if o.ctl == "" && len(o.rets) == 1 {
				c := o.rets[0].S
				if c == "true" {
					res = append(res, o)
					continue
				}
				if c == "false" {
					o.ctl = "break"
					res = append(res, o)
					continue
				}
				b := o.clone()
				b.assume(tNot(c))
				b.ctl = "break"
				o.assume(c)
				res = append(res, o, b)
				continue
			}
			res = append(res, o)
		}
		return res
	}
	probe := func(s *State) []*State {
		seen := u.d.fresh("seen", arrSort(ks, SBool))
		u.curLoopSeen[n] = seen
		bind(s, seen)
		outs := iterate(s)
		for _, o := range outs {
			if o.ctl == "break" {
				o.ctl = ""
				o.leftLoop = true
			}
		}
		return outs
	}
	vars, heaps, gvars, wm := u.modifiedBy(st, probe)
	empty := fmt.Sprintf("((as const %s) false)", arrSort(ks, SBool))
	u.curLoopSeen[n] = empty
	u.checkInvs(st, n, ls, "init", lit.Body.Pos())
	u.havocLoopState(st, vars, heaps, gvars, wm)
	seen := u.d.fresh("seen", arrSort(ks, SBool))
	st.assumeFact(fmt.Sprintf("(forall ((k %s)) (=> (select %s k) (select %s k)))", ks, seen, dom0))
	u.curLoopSeen[n] = seen
	u.assumeInvs(st, n, ls, lit.Body.Pos())
	exit := st.clone()
	exit.assume(fmt.Sprintf("(forall ((k %s)) (=> (select %s k) (select %s k)))", ks, dom0, seen))
	kterm := bind(st, seen)
	outs := iterate(st)
	res := []*State{exit}
	for _, o := range outs {
		switch o.ctl {
		case "":
			u.curLoopSeen[n] = app("store", seen, kterm, "true")
			u.checkInvs(o, n, ls, "preserve", lit.Body.Pos())
		case "break":
			o.ctl = ""
			res = append(res, o)
		default:
			res = append(res, o)
		}
	}
	u.curLoopSeen[n] = seen
	return res, true
}

// litLoopOrd gives Range-closures a loop ordinal after the syntactic loops: 100 + literal ordinal.
func (u *Unit) litLoopOrd(lit *ast.FuncLit) int { return 100 + u.litOrd[lit] }

func modelSortSlice(u *Unit, st *State, x *ast.CallExpr, _ *Val, fn *types.Func) *Val {
	u.trusted["model: sort.Slice yields a permutation ordered by less (no two adjacent elements out of order; transitivity of less assumed)"] = true
	s := u.eval(st, x.Args[0])
	lit, ok := ast.Unparen(x.Args[1]).(*ast.FuncLit)
	if !ok || len(lit.Body.List) != 1 || s.Arr == "" {
		u.note("sort.Slice with a non-literal or multi-statement less: contents havocked to a permutation only")
	}
	es := sortOf(elemType(s.T))
	na := u.d.fresh("sorted", arrSort(SInt, es))
	n := s.Len
	// permutation (as multiset inclusion both ways, via an explicit index bijection)
	perm := u.d.fun(fmt.Sprintf("perm!%d", u.d.n), []string{SInt}, SInt)
	inv := u.d.fun(fmt.Sprintf("perminv!%d", u.d.n), []string{SInt}, SInt)
	st.assumeFact(fmt.Sprintf("(forall ((i Int)) (! (=> (and (<= 0 i) (< i %s)) (and (<= 0 (%s i)) (< (%s i) %s) (= (select %s i) (select %s (%s i))) (= (%s (%s i)) i))) :pattern ((select %s i))))", n, perm, perm, n, na, s.Arr, perm, inv, perm, na))
	st.assumeFact(fmt.Sprintf("(forall ((j Int)) (! (=> (and (<= 0 j) (< j %s)) (and (<= 0 (%s j)) (< (%s j) %s) (= (select %s j) (select %s (%s j))) (= (%s (%s j)) j))) :pattern ((select %s j))))", n, inv, inv, n, s.Arr, na, inv, perm, inv, s.Arr))
	// assign the permuted contents to the slice variable (sort.Slice sorts in place)
	u.sliceWrites = true
	u.assign(st, x.Args[0], &Val{T: s.T, Arr: na, Len: s.Len, Nil: s.Nil})
	if ok && len(lit.Body.List) == 1 {
		if rs, isRet := lit.Body.List[0].(*ast.ReturnStmt); isRet && len(rs.Results) == 1 {
			// ordered: forall i<j: !less(j,i)   (evaluated against the sorted contents)
			var ps []*types.Var
			for _, f := range lit.Type.Params.List {
				for _, nm := range f.Names {
					o, _ := u.info.Defs[nm].(*types.Var)
					ps = append(ps, o)
				}
			}
			if len(ps) == 2 {
				bvCounter++
				qi, qj := fmt.Sprintf("si!%d", bvCounter), fmt.Sprintf("sj!%d", bvCounter)
				tmp := st.clone()
				tmp.noFacts++
				tmp.vars[ps[0]] = &Val{T: types.Typ[types.Int], S: qj}
				tmp.vars[ps[1]] = &Val{T: types.Typ[types.Int], S: qi}
				saveSafety := u.safety
				u.safety = false
				u.quiet++
				less := u.eval(tmp, rs.Results[0])
				u.quiet--
				u.safety = saveSafety
				st.assumeFact(fmt.Sprintf("(forall ((%s Int) (%s Int)) (=> (and (<= 0 %s) (< %s %s) (< %s %s)) (not %s)))", qi, qj, qi, qi, qj, qj, n, less.S))
			}
		}
	}
	return &Val{}
}

func (e *Engine) timeType() types.Type {
	if e.timeT != nil {
		return e.timeT
	}
	for _, p := range e.allPkgs {
		if p.PkgPath == "time" {
			e.timeT = p.Types.Scope().Lookup("Time").Type()
			return e.timeT
		}
	}
	return types.Typ[types.Int64]
}

func constantString(v interface{ ExactString() string }) string {
	q := v.ExactString()
	if s, err := strconv.Unquote(q); err == nil {
		return s
	}
	return q
}

// splitFormat splits a printf format into literal pieces and verb letters ("%%" is a literal percent).
func splitFormat(f string) (pieces []string, verbs []rune) {
	cur := ""
	for i := 0; i < len(f); i++ {
		if f[i] != '%' {
			cur += string(f[i])
			continue
		}
		if i+1 < len(f) && f[i+1] == '%' {
			cur += "%"
			i++
			continue
		}
		j := i + 1
		for j < len(f) && strings.ContainsRune("+-# 0123456789.*[]", rune(f[j])) {
			j++
		}
		if j < len(f) {
			verbs = append(verbs, rune(f[j]))
		} else {
			verbs = append(verbs, '?')
		}
		pieces = append(pieces, cur)
		cur = ""
		i = j
	}
	pieces = append(pieces, cur)
	return
}

// plainVerbs reports, per verb of a format, whether it is written without flags, width or precision ("%s", not "%5s").
func plainVerbs(f string) []bool {
	var res []bool
	for i := 0; i < len(f); i++ {
		if f[i] != '%' {
			continue
		}
		if i+1 < len(f) && f[i+1] == '%' {
			i++
			continue
		}
		j := i + 1
		for j < len(f) && strings.ContainsRune("+-# 0123456789.*[]", rune(f[j])) {
			j++
		}
		res = append(res, j == i+1)
		i = j
	}
	return res
}

func (u *Unit) errTextFn() string { return u.d.fun("pure!(error).Error!0", []string{SInt}, SStr) }
func (u *Unit) wrapsFn() string   { return u.d.fun("errwraps", []string{SInt}, SInt) }

// newError: a fresh, non-nil error value created by fmt/errors; not one of the network error types.
func (u *Unit) newError(st *State) string {
	r := u.d.fresh("err", SInt)
	st.assumeFact(app(">", r, st.wm))
	st.wm = r
	u.plainErrs = append(u.plainErrs, r)
	return r
}

// canonHeader: net/http's canonical header key. Computed for literals, an uninterpreted function otherwise.
func (u *Unit) canonHeader(k string) string {
	u.trusted["model: http.CanonicalHeaderKey is an uninterpreted function, evaluated by govc on string literals"] = true
	if lit, ok := unquoteSMT(k); ok {
		return strLit(textproto.CanonicalMIMEHeaderKey(lit))
	}
	uf := u.d.fun("fn!net/http.CanonicalHeaderKey", []string{SStr}, SStr)
	return app(uf, k)
}

// foldStr: strings.EqualFold(a,b) <=> fold(a) == fold(b). For ASCII literals fold is the lower-case literal.
func (u *Unit) foldStr(s string) string {
	u.trusted["model: strings.EqualFold(a,b) == (fold(a) == fold(b)); fold of an ASCII literal is its lower-case form"] = true
	if lit, ok := unquoteSMT(s); ok && isASCII(lit) {
		return strLit(strings.ToLower(lit))
	}
	uf := u.d.fun("fn!fold", []string{SStr}, SStr)
	return app(uf, s)
}

func unquoteSMT(s string) (string, bool) {
	if len(s) >= 2 && s[0] == '"' && s[len(s)-1] == '"' && !strings.Contains(s[1:len(s)-1], "\\u{") {
		return strings.ReplaceAll(s[1:len(s)-1], `""`, `"`), true
	}
	return "", false
}

func isASCII(s string) bool {
	for _, c := range s {
		if c > 127 {
			return false
		}
	}
	return true
}

// joinTerm: strings.Join as an uninterpreted function of (contents, length, separator).
func (u *Unit) joinTerm(xs *Val, sep string) string {
	f := u.d.fun("fn!strings.Join", []string{arrSort(SInt, SStr), SInt, SStr}, SStr)
	return app(f, xs.Arr, xs.Len, sep)
}

func (u *Unit) splitVal(st *State, s, sep string, t types.Type) *Val {
	fa := u.d.fun("fn!strings.Split.arr", []string{SStr, SStr}, arrSort(SInt, SStr))
	fl := u.d.fun("fn!strings.Split.len", []string{SStr, SStr}, SInt)
	v := &Val{T: t, Arr: app(fa, s, sep), Len: app(fl, s, sep), Nil: "false"}
	st.assumeFact(app(">=", v.Len, "1"))
	return v
}

// reflDecls declares what reflAxioms talks about.
func (u *Unit) reflDecls() {
	u.d.fun("reflkind", []string{SInt}, SInt)
	u.d.fun("refl.len", []string{SInt}, SInt)
	u.d.fun("refl.index", []string{SInt, SInt}, SInt)
	u.typeofFn()
	u.unboxFn(SInt)
	u.slLen()
	u.slArr(SInt)
}

// reflAxioms: for every type tag in the query, its reflect.Kind where the type's spelling determines it, and for
// slices of references (whose elements box to themselves) refl.len / refl.index are the length and elements of the
// slice held in the interface value.
func (d *Decls) reflAxioms(tags []string) string {
	if _, ok := d.set["reflkind"]; !ok {
		return ""
	}
	var b strings.Builder
	b.WriteString("(assert (forall ((x Int)) (! (>= (refl.len x) 0) :pattern ((refl.len x)))))\n")
	for _, t := range tags {
		name := strings.TrimPrefix(strings.Trim(t, "|"), "tag!")
		kind := ""
		switch {
		case strings.HasPrefix(name, "[]"):
			kind = "23"
		case strings.HasPrefix(name, "map["):
			kind = "21"
		case strings.HasPrefix(name, "*"):
			kind = "22"
		case name == "string":
			kind = "24"
		case name == "bool":
			kind = "1"
		case name == "int":
			kind = "2"
		case name == "float64":
			kind = "14"
		}
		if kind != "" {
			b.WriteString(fmt.Sprintf("(assert (= (reflkind %s) %s))\n", t, kind))
		}
		if strings.HasPrefix(name, "[]*") || strings.HasPrefix(name, "[]map[") || name == "[]interface {}" || name == "[]any" {
			b.WriteString(fmt.Sprintf("(assert (forall ((x Int)) (! (=> (= (typeof x) %s) (= (refl.len x) (sl.len (|unbox!Int| x)))) :pattern ((refl.len x)))))\n", t))
			b.WriteString(fmt.Sprintf("(assert (forall ((x Int) (i Int)) (! (=> (= (typeof x) %s) (= (refl.index x i) (select (|sl.arr!Int| (|unbox!Int| x)) i))) :pattern ((refl.index x i)))))\n", t))
			// a non-nil element of a []*T is a *T
			if strings.HasPrefix(name, "[]*") {
				et := quoteSym("tag!" + name[2:])
				for _, t2 := range tags {
					if t2 == et {
						b.WriteString(fmt.Sprintf("(assert (forall ((x Int) (i Int)) (! (=> (and (= (typeof x) %s) (distinct (refl.index x i) 0)) (= (typeof (refl.index x i)) %s)) :pattern ((refl.index x i)))))\n", t, et))
					}
				}
			}
		}
	}
	return b.String()
}
