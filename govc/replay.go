package main

// Replay of solver models on the real code (drivers are added per unit; see replay_drivers.go).

func tryReplay(e *Engine, prop string, o *Obl) (bool, string) {
	return false, ""
}
