package main

// Replay of solver models on the real code.
//
// A contract block may say:   //@ replay <driver> : <spec expr> ; <spec expr> ; ...
// The expressions are evaluated in the function's ENTRY state. When an obligation of that unit is `sat`,
// the query is re-run with (get-value ...) for those terms and the values are handed to the driver
// /verif/replay/<driver>_test.go, which is injected into the function's package with `go test -overlay`
// (nothing is written into /repo) and must print REPLAY-CONFIRMED if the real code violates the clause.

import (
	"bytes"
	"encoding/json"
	"fmt"
	"os"
	"os/exec"
	"path/filepath"
	"regexp"
	"strings"
	"time"
)

type replaySpec struct {
	Driver string
	Exprs  []string
	Terms  []string
	PkgDir string
	PkgPath string
	DirOverride string
}

func (u *Unit) prepareReplay(st *State) {
	f := u.ct.Flags["replay"]
	if f == "" || u.quiet > 0 {
		return
	}
	rs := &replaySpec{}
	parts := strings.SplitN(f, ":", 2)
	rs.Driver = strings.TrimSpace(parts[0])
	if i := strings.Index(rs.Driver, "@"); i >= 0 {
		rs.DirOverride = strings.TrimSpace(rs.Driver[i+1:])
		rs.Driver = strings.TrimSpace(rs.Driver[:i])
	}
	if len(parts) > 1 {
		for _, e := range strings.Split(parts[1], ";") {
			e = strings.TrimSpace(e)
			if e == "" {
				continue
			}
			se, err := parseSpec(e)
			if err != nil {
				u.eng.specError("%s: replay expression %q: %v", u.name, e, err)
				continue
			}
			env := &SpecEnv{names: u.entryParams, pkg: u.pkg, what: u.name + " replay"}
			v, _ := u.evalSpec(st, se, env, false)
			rs.Exprs = append(rs.Exprs, e)
			rs.Terms = append(rs.Terms, u.scalar(st, v))
		}
	}
	if u.pkg != nil && len(u.pkg.GoFiles) > 0 {
		rs.PkgDir = filepath.Dir(u.pkg.GoFiles[0])
		rs.PkgPath = u.pkg.PkgPath
	}
	if rs.DirOverride != "" {
		rs.PkgDir = filepath.Join(repoDir(), rs.DirOverride)
	}
	u.replay = rs
}

var valueRe = regexp.MustCompile(`^\(\s*`)

// parseGetValue parses "((t1 v1) (t2 v2) ...)" positionally into n values.
func parseGetValue(out string, n int) []string {
	i := strings.Index(out, "((")
	if i < 0 {
		return nil
	}
	s := out[i+1:]
	var vals []string
	for len(vals) < n {
		s = strings.TrimLeft(s, " \n\t")
		if !strings.HasPrefix(s, "(") {
			break
		}
		// find matching paren of this pair
		d, j := 0, 0
		inq := false
		for j = 0; j < len(s); j++ {
			c := s[j]
			if c == '"' {
				inq = !inq
			}
			if inq {
				continue
			}
			if c == '(' {
				d++
			} else if c == ')' {
				d--
				if d == 0 {
					break
				}
			}
		}
		pair := s[1:j]
		s = s[j+1:]
		// the value is the last s-expression of the pair
		pair = strings.TrimSpace(pair)
		var val string
		if strings.HasSuffix(pair, ")") {
			d := 0
			k := len(pair) - 1
			for ; k >= 0; k-- {
				if pair[k] == ')' {
					d++
				} else if pair[k] == '(' {
					d--
					if d == 0 {
						break
					}
				}
			}
			val = pair[k:]
		} else if strings.HasSuffix(pair, `"`) {
			k := strings.LastIndex(pair[:len(pair)-1], `"`)
			val = pair[k:]
		} else {
			k := strings.LastIndexAny(pair, " \n\t")
			val = pair[k+1:]
		}
		vals = append(vals, smtValueToGo(val))
	}
	return vals
}

func smtValueToGo(v string) string {
	v = strings.TrimSpace(v)
	if strings.HasPrefix(v, "(- ") {
		return "-" + strings.TrimSuffix(v[3:], ")")
	}
	if strings.HasPrefix(v, `"`) {
		s := strings.Trim(v, `"`)
		s = strings.ReplaceAll(s, `""`, `"`)
		re := regexp.MustCompile(`\\u\{([0-9a-fA-F]+)\}`)
		s = re.ReplaceAllStringFunc(s, func(m string) string {
			var r rune
			fmt.Sscanf(m[3:len(m)-1], "%x", &r)
			return string(r)
		})
		return s
	}
	return v
}

func tryReplay(e *Engine, prop string, o *Obl) (bool, string) {
	rs := o.Replay
	if rs == nil || rs.Driver == "" {
		return false, ""
	}
	drv := filepath.Join(verifDir, "replay", rs.Driver+"_test.go")
	if _, err := os.Stat(drv); err != nil {
		return false, "replay driver missing: " + drv
	}
	// re-run with get-value
	args := map[string]string{}
	args["__solver_status"] = o.Result.Status
	if len(rs.Terms) > 0 && o.Result.Status != "sat" {
		// no model: try the query with quantified hypotheses dropped. A model of the relaxed query is only a
		// CANDIDATE input; nothing is believed unless the driver confirms it on the real code.
		q := preamble + o.relaxedQuery() + "\n(check-sat)\n(get-value (" + strings.Join(rs.Terms, " ") + "))\n"
		f := filepath.Join(e.smtDir, sanitizeFile(o.Name)+".relaxed.smt2")
		os.WriteFile(f, []byte(q), 0o644)
		out, _ := exec.Command("z3-new", "-T:20", f).CombinedOutput()
		if strings.HasPrefix(strings.TrimSpace(string(out)), "sat") {
			vals := parseGetValue(string(out), len(rs.Terms))
			if len(vals) == len(rs.Terms) {
				for i, ex := range rs.Exprs {
					args[ex] = vals[i]
				}
				args["__candidate_from"] = "relaxed query (quantified hypotheses dropped)"
			}
		}
	} else if len(rs.Terms) > 0 {
		// prefer a model in which the clock stands still during the call (replayable on a real clock)
		var still []string
		for name := range o.D.set {
			if strings.HasPrefix(name, "now!") {
				still = append(still, "(assert (= "+name+" |now@0|))")
			}
		}
		f := filepath.Join(e.smtDir, sanitizeFile(o.Name)+".replay.smt2")
		var out []byte
	attempts:
		for _, extra := range []string{strings.Join(still, "\n"), ""} {
			q := preamble + o.query() + "\n" + extra + "\n(check-sat)\n(get-value (" + strings.Join(rs.Terms, " ") + "))\n"
			os.WriteFile(f, []byte(q), 0o644)
			for _, solver := range []string{"z3-new", "z3"} {
				out, _ = exec.Command(solver, "-T:20", f).CombinedOutput()
				if strings.HasPrefix(strings.TrimSpace(string(out)), "sat") {
					break attempts
				}
			}
		}
		vals := parseGetValue(string(out), len(rs.Terms))
		if len(vals) != len(rs.Terms) {
			return false, "could not obtain model values: " + trunc(string(out), 500)
		}
		for i, ex := range rs.Exprs {
			args[ex] = vals[i]
		}
	}
	args["__obligation"] = o.Name
	args["__clause"] = o.Text
	aj, _ := json.Marshal(args)
	ov := map[string]map[string]string{"Replace": {filepath.Join(rs.PkgDir, "zz_govc_replay_test.go"): drv}}
	ovj, _ := json.Marshal(ov)
	tmp, _ := os.MkdirTemp("", "govc-replay")
	defer os.RemoveAll(tmp)
	ovf := filepath.Join(tmp, "overlay.json")
	os.WriteFile(ovf, ovj, 0o644)
	rel, _ := filepath.Rel(repoDir(), rs.PkgDir)
	cmd := exec.Command("go", "test", "-overlay", ovf, "-vet=off", "-count=1", "-timeout", "60s", "-v", "-run", "TestGovcReplay", "./"+rel)
	cmd.Dir = repoDir()
	cmd.Env = append(os.Environ(), "GOVC_REPLAY_ARGS="+string(aj), "GOFLAGS=-mod=mod")
	var buf bytes.Buffer
	cmd.Stdout, cmd.Stderr = &buf, &buf
	done := make(chan struct{})
	go func() { cmd.Run(); close(done) }()
	select {
	case <-done:
	case <-time.After(120 * time.Second):
		cmd.Process.Kill()
	}
	out := "args: " + string(aj) + "\n" + buf.String()
	return strings.Contains(buf.String(), "REPLAY-CONFIRMED"), out
}
