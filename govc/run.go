package main

// Unit driver: entry state, exit obligations (ensures, frame, repinv), lemma units, solving.

import (
	"fmt"
	"os"
	"go/ast"
	"go/token"
	"go/types"
	"sort"
	"strings"
	"sync"

	"golang.org/x/tools/go/packages"
)

func (e *Engine) newUnit(pkg *packages.Package, name, key string, ct *Contract) *Unit {
	u := &Unit{eng: e, pkg: pkg, name: name, key: key, ct: ct, d: newDecls(), obls: map[string]*Obl{},
		lits: map[string]*ast.FuncLit{}, notes: map[string]bool{}, trusted: map[string]bool{}, usedContracts: map[string]bool{},
		curLoopIdx: map[int]string{}, curLoopSeen: map[int]string{}, loopExitIdx: map[int]string{}, loopsSeen: map[int]bool{},
		ptrs: map[string]ast.Expr{}, pathCap: maxPaths, callAssertSeen: map[int]bool{}, sentinels: map[string]bool{}}
	if pkg != nil {
		u.info = pkg.TypesInfo
	}
	if ct != nil {
		u.safety = ct.Flags["safety"] != ""
		u.nopanic = ct.Flags["nopanic"] != ""
		u.overflow = ct.Flags["overflow"] != ""
	}
	return u
}

// findLit locates the n-th function literal (source order) inside fd, following a $-path.
func findLit(body ast.Node, path []int) *ast.FuncLit {
	cur := body
	var found *ast.FuncLit
	for _, want := range path {
		n := 0
		found = nil
		root := cur
		ast.Inspect(root, func(nd ast.Node) bool {
			if found != nil {
				return false
			}
			if fl, ok := nd.(*ast.FuncLit); ok && nd != root {
				n++
				if n == want {
					found = fl
				}
				return false // do not count nested literals at this level
			}
			return true
		})
		if found == nil {
			return nil
		}
		cur = found
	}
	return found
}

func (e *Engine) buildUnit(ct *Contract) (*Unit, error) {
	pkg := e.pkgs[ct.Pkg]
	if pkg == nil {
		return nil, fmt.Errorf("package %s not loaded", ct.Pkg)
	}
	key := ct.Key
	var litPath []int
	if i := strings.Index(key, "$"); i >= 0 {
		for _, p := range strings.Split(key[i+1:], "$") {
			n := 0
			fmt.Sscanf(p, "%d", &n)
			litPath = append(litPath, n)
		}
		key = key[:i]
	}
	fd := e.funcDecls[ct.Pkg+"."+key]
	name := shortPkg(ct.Pkg) + "." + ct.Key
	u := e.newUnit(pkg, name, ct.Pkg+"."+ct.Key, ct)
	if fd == nil {
		u.stale("contract-stale", "function "+ct.Pkg+"."+key+" not found in the source tree")
		return u, nil
	}
	obj, _ := pkg.TypesInfo.Defs[fd.Name].(*types.Func)
	u.fnPos = fd.Pos()
	if len(litPath) == 0 {
		u.ftype, u.recv, u.body = fd.Type, fd.Recv, fd.Body
		u.sig = obj.Type().(*types.Signature)
	} else {
		lit := findLit(fd.Body, litPath)
		if lit == nil {
			u.stale("contract-stale", "function literal "+ct.Key+" not found")
			return u, nil
		}
		u.ftype, u.body = lit.Type, lit.Body
		u.sig = pkg.TypesInfo.TypeOf(lit).(*types.Signature)
		u.outerDecl = fd
	}
	u.computeOrdinals()
	return u, nil
}

func (u *Unit) bindParam(st *State, names map[string]*Val, id *ast.Ident) {
	obj, ok := u.info.Defs[id].(*types.Var)
	if !ok || id.Name == "_" {
		return
	}
	v := u.freshVal(st, obj.Type(), id.Name)
	if kindOf(obj.Type()) == kRef || isIface(obj.Type()) {
		// what a parameter refers to exists at entry (for an interface value: the object it holds)
		st.assumeFact(app("<=", v.S, st.wm))
	}
	if (kindOf(obj.Type()) == kSlice || kindOf(obj.Type()) == kArray) && kindOf(elemType(obj.Type())) == kRef && v.Arr != "" {
		bvCounter++
		i := fmt.Sprintf("pa!%d", bvCounter)
		st.assumeFact(fmt.Sprintf("(forall ((%s Int)) (! (<= (select %s %s) %s) :pattern ((select %s %s))))", i, v.Arr, i, st.wm, v.Arr, i))
	}
	st.vars[obj] = v
	names[id.Name] = v
}

func (u *Unit) run() {
	if u.body == nil {
		return
	}
	st := &State{vars: map[types.Object]*Val{}, heap: map[string]string{}, pcSet: map[string]bool{}, held: map[string]string{}, gvars: map[string]*Val{}, loopSeen: map[int]string{}}
	st.wm = u.d.constant("wm@0", SInt)
	st.assumeFact(app(">=", st.wm, "0"))
	names := map[string]*Val{}
	if u.recv != nil {
		for _, f := range u.recv.List {
			for _, n := range f.Names {
				u.bindParam(st, names, n)
				u.recvName = n.Name
				names["self"] = names[n.Name]
			}
		}
	}
	for _, f := range u.ftype.Params.List {
		for _, n := range f.Names {
			u.bindParam(st, names, n)
		}
	}
	// named results start at zero
	u.resultVars = nil
	if u.ftype.Results != nil {
		for _, f := range u.ftype.Results.List {
			if len(f.Names) == 0 {
				u.resultVars = append(u.resultVars, nil)
			}
			for _, n := range f.Names {
				if obj, ok := u.info.Defs[n].(*types.Var); ok {
					st.vars[obj] = u.zeroVal(st, obj.Type())
					u.resultVars = append(u.resultVars, obj)
				} else {
					u.resultVars = append(u.resultVars, nil)
				}
			}
		}
	}
	// free variables (captured by a literal unit): arbitrary values fixed at entry
	declared := map[types.Object]bool{}
	ast.Inspect(u.body, func(n ast.Node) bool {
		if id, ok := n.(*ast.Ident); ok {
			if o := u.info.Defs[id]; o != nil {
				declared[o] = true
			}
		}
		return true
	})
	ast.Inspect(u.body, func(n ast.Node) bool {
		if id, ok := n.(*ast.Ident); ok {
			if o, ok := u.info.Uses[id].(*types.Var); ok && !declared[o] && !o.IsField() {
				if _, bound := st.vars[o]; !bound && !(o.Pkg() != nil && o.Parent() == o.Pkg().Scope()) {
					v := u.freshVal(st, o.Type(), o.Name())
					if kindOf(o.Type()) == kRef {
						st.assumeFact(app("<=", v.S, st.wm))
					}
					st.vars[o] = v
					names[o.Name()] = v
				}
			}
		}
		return true
	})
	// ghost globals
	st.gvars["now"] = &Val{T: u.eng.timeType(), S: u.d.constant("now@0", SInt)}
	st.assumeFact(app(">", st.gvars["now"].S, "0"))
	st.gvars["spawned"] = intVal("0")
	for _, g := range sortedGhosts(u.eng.cs.Ghosts) {
		gp := u.eng.pkgByPath(g.Pkg)
		if gp == nil {
			gp = u.pkg
		}
		t := u.resolveType(gp, g.Type)
		st.gvars[g.Name] = u.freshVal(st, t, "g."+g.Name)
	}
	u.entryParams = names
	old := st.clone()
	st.old = old
	old.old = nil
	u.setupRefines(st, names)
	env := &SpecEnv{names: names, pkg: u.pkg, what: u.name + " requires"}
	for _, rq := range u.ct.Requires {
		g, _ := u.evalSpecBool(st, rq.E, env, true)
		st.assume(g)
		old.assume(g)
	}
	for _, rq := range u.ct.Assumes {
		g, _ := u.evalSpecBool(st, rq.E, env, true)
		st.assume(g)
		u.trusted["assumption in "+u.name+": "+rq.Text] = true
	}
	u.assumeRepInv(st, names)
	u.useAxioms(st)
	u.prepareReplay(old)
	u.cover(st, "vacuity.requires", "precondition (requires ∧ repinv ∧ type ranges) is satisfiable")
	st.trace = []string{"entry " + u.name}
	st.entryLen = len(st.pc)
	if u.ct.Flags["functional"] != "" {
		// `functional`: the results are a function of the (scalar) arguments alone. Checked structurally along every
		// path: no heap, map or package-variable access, and only deterministic callees.
		for nm, v := range names {
			switch kindOf(v.T) {
			case kString, kInt, kUint, kBool, kFloat:
			default:
				u.eng.specError("%s: functional needs scalar parameters (%s)", u.name, nm)
			}
		}
		u.oblige(st, "functional", "functional", "result depends only on the arguments (no state access, deterministic callees)", "true", false)
		u.functional = true
	}
	outs := u.execBlock(st, u.body.List)
	u.functional = false
	for _, o := range outs {
		u.finish(o)
	}
	// exits by panic out of a callee: deferred calls run, then the exceptional postconditions must hold
	for i, snap := range u.panicSnaps {
		ds := snap.defers
		snap.defers = nil
		snap.ctl = ""
		after := []*State{snap}
		for j := len(ds) - 1; j >= 0; j-- {
			var nx []*State
			for _, a := range after {
				if a.ctl != "" {
					continue
				}
				nx = append(nx, ds[j].call(a)...)
			}
			after = nx
		}
		for _, a := range after {
			if !a.panicking && a.ctl == "" {
				// a deferred call recovered: the function returns normally with its named results
				a.rets = nil
				for _, rv := range u.resultVars {
					if rv != nil {
						a.rets = append(a.rets, a.vars[rv])
					}
				}
				a.trace = append(a.trace, "panic recovered: normal return with the named results")
				u.nRecovered++
				u.checkExit(a, 900+u.nRecovered)
				continue
			}
			penv := &SpecEnv{names: u.entryParams, oldNames: u.entryParams, old: a.old, pkg: u.pkg, what: u.name + " onpanic"}
			for _, c := range u.ct.OnPanic {
				g, q := u.evalSpecBool(a, c.E, penv, false)
				u.oblige(a, fmt.Sprintf("onpanic.%d@call(%s)", c.N, u.panicSites[i]), "onpanic", c.Text, g, q)
			}
		}
	}
	// stale loop specs
	for n := range u.ct.Loops {
		if !u.loopsSeen[n] {
			u.stale(fmt.Sprintf("loop%d.contract-stale", n), fmt.Sprintf("loop %d named in the contract was not found", n))
		}
	}
	for _, ca := range u.ct.CallAsserts {
		if !u.callAssertSeen[ca.N] {
			u.stale(fmt.Sprintf("at-call(%s).contract-stale", ca.Text), "call site named in the contract was not found: "+ca.Text)
		}
	}
	if u.tooManyPaths {
		u.stale("path-limit", fmt.Sprintf("more than %d paths: function must be split by contracts on its helpers", u.pathCap))
	}
	if u.outside != "" {
		u.stale("outside-subset", "construct outside the supported subset: "+u.outside)
	}
	if u.staleIdent != "" {
		u.stale("contract-stale", "contract mentions unknown name "+u.staleIdent)
	}
}

func sortedGhosts(m map[string]QVar) []QVar {
	var ks []string
	for k := range m {
		ks = append(ks, k)
	}
	sort.Strings(ks)
	var out []QVar
	for _, k := range ks {
		out = append(out, m[k])
	}
	return out
}

func (u *Unit) typeSpecOf(t types.Type) *TypeSpec {
	if t == nil {
		return nil
	}
	return u.eng.cs.Types[typeKey(t)]
}

func (u *Unit) assumeRepInv(st *State, names map[string]*Val) {
	if u.recvName == "" || u.ct.Flags["helper"] != "" {
		// a helper runs in the middle of another method: the representation invariant may be broken there
		return
	}
	r := names[u.recvName]
	ts := u.typeSpecOf(r.T)
	if ts == nil {
		return
	}
	env := &SpecEnv{names: map[string]*Val{"self": r, u.recvName: r}, pkg: u.eng.pkgByPath(ts.Pkg), what: u.name + " repinv"}
	for _, c := range ts.RepInv {
		g, _ := u.evalSpecBool(st, c.E, env, true)
		st.assume(g)
	}
}

func (u *Unit) finish(o *State) {
	if o.ctl == "panic" || o.ctl == "end" {
		return
	}
	if o.ctl == "" {
		o.retSite = u.nRet + 1
		o.rets = nil
		for _, rv := range u.resultVars {
			if rv != nil {
				o.rets = append(o.rets, o.vars[rv])
			}
		}
		o.trace = append(o.trace, fmt.Sprintf("end of body (return.%d)", o.retSite))
	} else if o.ctl != "return" {
		return
	}
	// bind named results to the returned values so deferred closures see them
	for i, rv := range u.resultVars {
		if rv != nil && i < len(o.rets) {
			o.vars[rv] = o.rets[i]
		}
	}
	after := []*State{o}
	ds := o.defers
	o.defers = nil
	o.ctl = ""
	savedRets := o.rets
	for i := len(ds) - 1; i >= 0; i-- {
		var nx []*State
		for _, a := range after {
			if a.ctl != "" {
				continue
			}
			nx = append(nx, ds[i].call(a)...)
		}
		after = nx
	}
	for _, a := range after {
		a.rets = append([]*Val(nil), savedRets...)
	}
	for _, a := range after {
		if a.ctl == "panic" || a.ctl == "end" {
			continue
		}
		// named results may have been changed by defers
		if len(ds) > 0 {
			for i, rv := range u.resultVars {
				if rv != nil && i < len(a.rets) {
					a.rets[i] = a.vars[rv]
				}
			}
		}
		u.checkExit(a, o.retSite)
	}
}

func (u *Unit) checkExit(st *State, site int) {
	names := map[string]*Val{}
	for k, v := range u.entryParams {
		names[k] = v
	}
	bindResults(names, u.ct, u.sig, st.rets)
	env := &SpecEnv{names: names, oldNames: u.entryParams, old: st.old, pkg: u.pkg, what: u.name + " ensures"}
	for _, en := range u.ct.Ensures {
		g, q := u.evalSpecBool(st, en.E, env, false)
		u.oblige(st, fmt.Sprintf("ensures.%d@return.%d", en.N, site), "ensures", en.Text, g, q)
	}
	// refinement of an interface contract (post direction)
	if u.refines != nil {
		rn := map[string]*Val{}
		for k, v := range u.refNames {
			rn[k] = v
		}
		bindResults(rn, u.refines, u.refSig, st.rets)
		renv := &SpecEnv{names: rn, oldNames: u.refNames, old: st.old, pkg: u.eng.pkgByPath(u.refines.Pkg), what: u.name + " refines " + u.refines.Key}
		for _, en := range u.refines.Ensures {
			g, q := u.evalSpecBool(st, en.E, renv, false)
			u.oblige(st, fmt.Sprintf("refines(%s).ensures.%d@return.%d", u.refines.Key, en.N, site), "refines", en.Text, g, q)
		}
	}
	// representation invariant of the receiver
	if u.recvName != "" && u.ct.Flags["helper"] == "" {
		r := u.entryParams[u.recvName]
		if ts := u.typeSpecOf(r.T); ts != nil {
			renv := &SpecEnv{names: map[string]*Val{"self": r, u.recvName: r}, pkg: u.eng.pkgByPath(ts.Pkg), old: st.old, what: u.name + " repinv"}
			for _, c := range ts.RepInv {
				g, q := u.evalSpecBool(st, c.E, renv, false)
				u.oblige(st, fmt.Sprintf("repinv.%d.preserve@return.%d", c.N, site), "repinv", c.Text, g, q)
			}
		}
	}
	// functype refinement is expressed as ordinary ensures on the literal unit.
	u.checkFrame(st, site, env)
	if len(st.held) > 0 && u.ct.Flags["holds-lock"] == "" {
		var ks []string
		for k := range st.held {
			ks = append(ks, k)
		}
		sort.Strings(ks)
		u.oblige(st, fmt.Sprintf("lock.released@return.%d", site), "lock", "locks still held at return: "+strings.Join(ks, ","), "false", false)
	}
	if f := u.ct.Flags["atomic-once"]; f != "" {
		// device (ii): the shared field is touched at most once per call, by a single atomic operation,
		// and never by a plain (non-atomic) access.
		nAtomic, nPlain := 0, 0
		last := ""
		for _, op := range st.atomicOps {
			parts := strings.SplitN(op, " ", 2)
			if parts[1] == f {
				if !(last == "read "+f && parts[0] == "write") { // read+write of one RMW counts once
					nAtomic++
				}
			}
			last = op
		}
		for _, op := range st.plainOps {
			if op == f {
				nPlain++
			}
		}
		goal := "false"
		if nAtomic <= 1 && nPlain == 0 {
			goal = "true"
		}
		u.oblige(st, fmt.Sprintf("atomic-once@return.%d", site), "atomic-once", fmt.Sprintf("%s accessed by at most one atomic operation and no plain access (atomic ops %d, plain %d)", f, nAtomic, nPlain), goal, false)
	}
	if u.eng.tier == "thorough" {
		u.cover(st, fmt.Sprintf("reach@return.%d", site), "return site reachable")
	}
}

// checkFrame: every heap array that changed must be covered by the modifies clause.
func (u *Unit) checkFrame(st *State, site int, env *SpecEnv) {
	if u.ct.Flags["modifies"] == "" && len(u.ct.Modifies) == 0 && u.ct.Flags["frame"] == "" {
		// no modifies clause: callers assume "modifies nothing"; check exactly that.
	}
	allowAll := false
	var objAllowed []string
	var objAllowedT []types.Type
	allowed := map[string][]string{} // heap -> refs ("" in list = whole)
	envOld := &SpecEnv{names: u.entryParams, pkg: u.pkg, what: u.name + " modifies"}
	for _, it := range u.resolveModifies(st.old, u.ct, envOld) {
		if it.all {
			allowAll = true
		}
		if it.heap != "" {
			allowed[it.heap] = append(allowed[it.heap], it.ref)
		}
		if it.obj != "" {
			objAllowed = append(objAllowed, it.obj)
			objAllowedT = append(objAllowedT, it.objT)
		}
	}
	gAllowed := map[string]bool{}
	for _, m := range u.ct.Modifies {
		if strings.HasPrefix(m, "gvar ") {
			gAllowed[strings.TrimSpace(m[5:])] = true
		}
	}
	if allowAll {
		return
	}
	var conj []string
	quant := false
	var names []string
	hnames := map[string]string{}
	for h, t := range st.heap {
		hnames[h] = t
	}
	if st.epoch != st.old.epoch {
		for h := range u.eng.heapSorts {
			if _, ok := hnames[h]; !ok {
				hnames[h] = u.heapDefault(st, h, u.eng.heapSorts[h])
			}
		}
	}
	for _, h := range sortedKeys(hnames) {
		cur := hnames[h]
		ent, ok := st.old.heap[h]
		if !ok {
			ent = u.heapDefault(st.old, h, u.eng.heapSorts[h])
		}
		if cur == ent {
			continue
		}
		refs, any := allowed[h]
		whole := false
		for _, r := range refs {
			if r == "" {
				whole = true
			}
		}
		if any && whole {
			continue
		}
		names = append(names, h)
		bvCounter++
		r := fmt.Sprintf("fr!%d", bvCounter)
		var excl []string
		for _, a := range refs {
			excl = append(excl, app("distinct", r, a))
		}
		if strings.HasPrefix(h, "H!") {
			for i, a := range objAllowed {
				if mayOwn(h, objAllowedT[i]) && (!isIface(objAllowedT[i]) || u.eng.methodMayWrite(h)) {
					excl = append(excl, app("distinct", r, a))
				}
			}
		}
		// objects allocated during the call are not part of the caller-visible frame
		cond := tAnd(append(excl, app("<=", r, st.old.wm), app("<=", "0", r))...)
		if strings.HasPrefix(h, "V!") {
			cond = tAnd(excl...)
		}
		one := fmt.Sprintf("(forall ((%s Int)) (=> %s (= (select %s %s) (select %s %s))))", r, cond, cur, r, ent, r)
		if os.Getenv("GOVC_FRAME_SPLIT") != "" {
			u.oblige(st, fmt.Sprintf("frame[%s]@return.%d", h, site), "frame", "location unchanged: "+h, one, true)
		}
		conj = append(conj, one)
		quant = true
	}
	for _, g := range sortedGhostNames(st.gvars) {
		if g == "now" || gAllowed[g] {
			continue
		}
		if ov, ok := st.old.gvars[g]; ok && !sameVal(ov, st.gvars[g]) {
			conj = append(conj, tEq(u.scalar(st, st.gvars[g]), u.scalar(st, ov)))
			names = append(names, "gvar "+g)
		}
	}
	u.oblige(st, fmt.Sprintf("frame@return.%d", site), "frame", "only locations in the modifies clause change (changed here: "+strings.Join(names, ", ")+")", tAnd(conj...), quant)
}

func sortedGhostNames(m map[string]*Val) []string {
	var ks []string
	for k := range m {
		ks = append(ks, k)
	}
	sort.Strings(ks)
	return ks
}

// guarded_by discipline
func (u *Unit) guardedRead(st *State, base *Val, field string, at ast.Node) {
	u.guardedAccess(st, base, field, at, false)
}
func (u *Unit) guardedWrite(st *State, base *Val, field string, at ast.Node) {
	u.guardedAccess(st, base, field, at, true)
}

func (u *Unit) guardedAccess(st *State, base *Val, field string, at ast.Node, write bool) {
	if u.quiet > 0 {
		return
	}
	if u.inAtomic == 0 {
		if se, ok := at.(*ast.SelectorExpr); ok {
			st.plainOps = append(st.plainOps, exprString(se))
		}
	}
	ts := u.typeSpecOf(base.T)
	if ts == nil || len(ts.Guarded) == 0 {
		return
	}
	if u.ct != nil && u.ct.Flags["constructor"] != "" {
		return
	}
	var baseExpr string
	switch x := at.(type) {
	case *ast.SelectorExpr:
		baseExpr = exprString(x.X)
	default:
		return
	}
	for mu, fields := range ts.Guarded {
		for _, f := range fields {
			if f != field {
				continue
			}
			mode := st.held[baseExpr+"."+mu]
			ok := mode == "w" || (!write && mode == "r")
			if u.ct != nil && u.ct.Flags["requires-lock"] != "" {
				// helper documented as "caller holds the lock"
				ok = true
			}
			kind := "read"
			if write {
				kind = "write"
			}
			goal := "false"
			if ok {
				goal = "true"
			}
			u.oblige(st, fmt.Sprintf("guarded.%s.%s@expr.%d", kind, field, u.posRank(at.Pos())), "guarded", fmt.Sprintf("%s of %s.%s with %s.%s held", kind, baseExpr, field, baseExpr, mu), goal, false)
		}
	}
}

// ---------------------------------------------------------------------------
// lemmas: obligations without code

func (e *Engine) lemmaUnit(l *Axiom) *Unit {
	pkg := e.pkgByPath(l.Pkg)
	u := e.newUnit(pkg, shortPkg(l.Pkg)+".lemma."+l.Name, l.Pkg+".lemma."+l.Name, &Contract{Props: l.Props, Loops: map[int]*LoopSpec{}, Flags: map[string]string{}})
	st := &State{vars: map[types.Object]*Val{}, heap: map[string]string{}, pcSet: map[string]bool{}, held: map[string]string{}, gvars: map[string]*Val{}, loopSeen: map[int]string{}}
	st.wm = u.d.constant("wm@0", SInt)
	env := &SpecEnv{names: map[string]*Val{}, pkg: pkg, what: "lemma " + l.Name}
	g, q := u.evalSpecBool(st, l.E, env, false)
	u.oblige(st, "lemma", "lemma", l.Text, g, q)
	return u
}

// ---------------------------------------------------------------------------
// solving

func (o *Obl) query() string {
	var b strings.Builder
	b.WriteString(o.D.text())
	// distinct type tags
	var tags []string
	for name := range o.D.set {
		if strings.HasPrefix(strings.Trim(name, "|"), "tag!") {
			tags = append(tags, name)
		}
	}
	sort.Strings(tags)
	if len(tags) > 1 {
		b.WriteString("(assert (distinct " + strings.Join(tags, " ") + "))\n")
	}
	for _, t := range tags {
		b.WriteString("(assert (> " + t + " 0))\n")
	}
	b.WriteString(o.D.reflAxioms(tags))
	// errors created by fmt.Errorf/errors.New: errors.Is/As go through the wrapped error only
	b.WriteString(o.D.errAxioms())
	b.WriteString(o.D.litAxioms())
	b.WriteString(o.D.heapAxioms())
	var sents []string
	for name := range o.D.set {
		if strings.HasPrefix(strings.Trim(name, "|"), "sentinel!") {
			sents = append(sents, name)
		}
	}
	sort.Strings(sents)
	if len(sents) > 1 {
		b.WriteString("(assert (distinct " + strings.Join(sents, " ") + "))\n")
	}
	var dis []string
	for _, in := range o.Insts {
		if o.Cover {
			dis = append(dis, in.Hyp)
		} else {
			dis = append(dis, tAnd(in.Hyp, tNot(in.Goal)))
		}
	}
	b.WriteString("(assert " + tOr(dis...) + ")\n")
	return b.String()
}

// relaxedQuery drops quantified hypotheses (used only to obtain candidate inputs for replay).
func (o *Obl) relaxedQuery() string {
	var b strings.Builder
	b.WriteString(o.D.text())
	var dis []string
	for _, in := range o.Insts {
		var keep []string
		for _, h := range in.HypList {
			if !strings.Contains(h, "(forall ") && !strings.Contains(h, "(exists ") {
				keep = append(keep, h)
			}
		}
		dis = append(dis, tAnd(append(keep, tNot(in.Goal))...))
	}
	b.WriteString("(assert " + tOr(dis...) + ")\n")
	return b.String()
}

func (e *Engine) solveAll(obls []*Obl) {
	var wg sync.WaitGroup
	sem := make(chan struct{}, 8)
	for _, o := range obls {
		if o.Stale != "" {
			o.Result = SolverResult{Status: "stale", Solver: "none", Raw: o.Stale}
			continue
		}
		allTrivial := true
		for _, in := range o.Insts {
			if !(in.Hyp == "false" && in.Goal == "true") {
				allTrivial = false
			}
		}
		if allTrivial && !o.Cover {
			o.Result = SolverResult{Status: "unsat", Solver: "trivial"}
			continue
		}
		o := o
		wg.Add(1)
		sem <- struct{}{}
		go func() {
			defer wg.Done()
			defer func() { <-sem }()
			to := e.timeoutS
			if o.Cover && to > 2 {
				to = 2
			}
			if !o.Cover && len(o.Insts) > 3 {
				// many paths reach this obligation: discharge them in small groups (each group must be valid)
				all := o.Insts
				var total int64
				solver := ""
				res := SolverResult{Status: "unsat"}
				for i := 0; i < len(all); i += 3 {
					j := i + 3
					if j > len(all) {
						j = len(all)
					}
					o.Insts = all[i:j]
					r := runQuery(e.smtDir, fmt.Sprintf("%s.part%d", o.Name, i/3), o.query(), to, o.Quant, e.seed)
					total += r.Ms
					solver = r.Solver
					if r.Status != "unsat" {
						res = r
						break
					}
				}
				if res.Status == "unsat" {
					o.Insts = all
					res.Solver = solver
				}
				res.Ms = total
				o.Result = res
				return
			}
			if !o.Cover && o.hasFocus() {
				ft := to
				if ft > 5 {
					ft = 5
				}
				saved := make([]string, len(o.Insts))
				for i, in := range o.Insts {
					saved[i] = in.Hyp
					in.Hyp = tAnd(in.Focus...)
				}
				r := runQuery(e.smtDir, o.Name+".focus", o.query(), ft, o.Quant, e.seed)
				for i, in := range o.Insts {
					in.Hyp = saved[i]
				}
				if r.Status == "unsat" {
					r.Solver += "+focus"
					o.Result = r
					return
				}
			}
			o.Result = runQuery(e.smtDir, o.Name, o.query(), to, o.Quant, e.seed)
			if o.Cover && o.Result.Status == "unsat" && len(o.PreInsts) > 0 {
				// inconsistent after the assumption: is the site reachable at all?
				post := o.Insts
				o.Insts = o.PreInsts
				pre := runQuery(e.smtDir, o.Name+".pre", o.query(), to, o.Quant, e.seed)
				o.Insts = post
				if pre.Status == "unsat" {
					o.Result.Status = "dead"
					o.Result.Raw = "call site unreachable (dead code): not a vacuity problem"
				}
			}
			if o.coverUndecided() {
				// quantified hypotheses defeat model finding: at least the quantifier-free part must be consistent
				g := runQuery(e.smtDir, o.Name+".ground", o.relaxedQuery(), to, false, e.seed)
				if g.Status == "sat" {
					o.Result.Status = "sat"
					o.Result.Solver = g.Solver + "/ground"
					o.Result.Raw = "quantifier-free part of the hypotheses is satisfiable (full query undecided)"
				} else if g.Status == "unsat" {
					o.Result.Status = "unsat"
					o.Result.Solver = g.Solver + "/ground"
					o.Result.Raw = "quantifier-free part of the hypotheses is already contradictory"
					if len(o.PreInsts) > 0 {
						post := o.Insts
						o.Insts = o.PreInsts
						pre := runQuery(e.smtDir, o.Name+".pre", o.query(), to, o.Quant, e.seed)
						o.Insts = post
						if pre.Status == "unsat" {
							o.Result.Status = "dead"
							o.Result.Raw = "call site unreachable (dead code): not a vacuity problem"
						} else if pre.Status != "sat" {
							o.Result.Status = "unknown"
						}
					}
				}
			}
		}()
	}
	wg.Wait()
	// second chance for proof obligations that merely ran out of time while everything was being solved at once: one
	// at a time (at most four), on an otherwise idle machine, with three times the budget. A definite answer (sat / unsat) is never
	// retried; a timeout that persists is reported as before. (GOVC_NO_RETRY=1 switches this off.)
	if os.Getenv("GOVC_NO_RETRY") == "" {
		n := 0
		for _, o := range obls {
			if o.Cover || o.Stale != "" || (o.Result.Status != "timeout" && o.Result.Status != "unknown") || len(o.Insts) == 0 || e.noRetry[o.Name] {
				continue
			}
			if n >= 4 {
				break // a broken tree fails many obligations: do not spend minutes re-trying all of them
			}
			n++
			if len(o.Insts) > 3 {
				all := o.Insts
				res := SolverResult{Status: "unsat"}
				var total int64
				for i := 0; i < len(all); i += 3 {
					j := i + 3
					if j > len(all) {
						j = len(all)
					}
					o.Insts = all[i:j]
					r := runQuery(e.smtDir, fmt.Sprintf("%s.retry%d", o.Name, i/3), o.query(), 3*e.timeoutS, o.Quant, e.seed)
					total += r.Ms
					res.Solver = r.Solver
					if r.Status != "unsat" {
						res = r
						break
					}
				}
				o.Insts = all
				if res.Status == "unsat" {
					res.Solver += "+retry"
					res.Ms = o.Result.Ms + total
					o.Result = res
				}
				continue
			}
			r := runQuery(e.smtDir, o.Name+".retry", o.query(), 3*e.timeoutS, o.Quant, e.seed)
			if r.Status == "unsat" {
				r.Solver += "+retry"
				r.Ms += o.Result.Ms
				o.Result = r
			}
		}
	}
}

// ok: proof obligations must be unsat. Cover obligations (vacuity guards) fail only when definitely
// unsatisfiable; an undecided cover (quantifiers: unknown/timeout) is reported as undecided, not as a failure.
func (o *Obl) ok() bool {
	if o.Cover {
		return o.Result.Status != "unsat" && o.Result.Status != "stale" // "dead" (unreachable site) is fine
	}
	return o.Result.Status == "unsat"
}

func (o *Obl) hasFocus() bool {
	if len(o.Insts) == 0 {
		return false
	}
	for _, in := range o.Insts {
		if in.Focus == nil {
			return false
		}
	}
	return true
}

func (o *Obl) coverUndecided() bool {
	return o.Cover && o.Result.Status != "sat" && o.Result.Status != "unsat"
}

var _ = token.NoPos

// setupRefines: `refines pkg.Iface.Method` -- the implementation must accept whatever the interface contract
// requires (pre direction, checked here) and deliver what it ensures (post direction, checked at every return).
func (u *Unit) setupRefines(st *State, names map[string]*Val) {
	f := u.ct.Flags["refines"]
	if f == "" {
		return
	}
	i := strings.LastIndex(f, ".")
	if i < 0 {
		u.eng.specError("%s: refines pkg.Iface.Method expected", u.name)
		return
	}
	ifaceName, method := f[:i], f[i+1:]
	t := u.resolveType(u.pkg, ifaceName)
	it, ok := types.Unalias(t).Underlying().(*types.Interface)
	if !ok {
		u.eng.specError("%s: refines: %s is not an interface", u.name, ifaceName)
		return
	}
	var m *types.Func
	for k := 0; k < it.NumMethods(); k++ {
		if it.Method(k).Name() == method {
			m = it.Method(k)
		}
	}
	if m == nil {
		u.eng.specError("%s: refines: no method %s", u.name, method)
		return
	}
	ct := u.eng.cs.Funcs[funcKey(m)]
	if ct == nil || ct.Kind != "interface" {
		u.eng.specError("%s: refines: no interface contract %s", u.name, funcKey(m))
		return
	}
	u.usedContracts[funcKey(m)] = true
	sig := m.Type().(*types.Signature)
	rn := map[string]*Val{}
	if u.recvName != "" {
		rn["self"] = names[u.recvName]
	}
	// positional mapping of parameter names
	k := 0
	for _, fl := range u.ftype.Params.List {
		for _, n := range fl.Names {
			if k < sig.Params().Len() {
				if pn := sig.Params().At(k).Name(); pn != "" && pn != "_" {
					rn[pn] = names[n.Name]
				}
			}
			k++
		}
		if len(fl.Names) == 0 {
			k++
		}
	}
	for g, v := range names {
		if _, ok := rn[g]; !ok {
			_ = v
		}
	}
	u.refines, u.refSig, u.refNames = ct, sig, rn
	// pre direction
	rst := st.clone()
	renv := &SpecEnv{names: rn, pkg: u.eng.pkgByPath(ct.Pkg), what: u.name + " refines " + ct.Key + " requires"}
	for _, rq := range ct.Requires {
		g, _ := u.evalSpecBool(rst, rq.E, renv, true)
		rst.assume(g)
	}
	u.assumeRepInv(rst, names)
	if u.recvName != "" {
		if rv := names[u.recvName]; rv != nil && rv.S != "" && kindOf(rv.T) == kRef {
			// a method reached through an interface value: the receiver stored in the interface is not a nil pointer
			rst.assume(app("distinct", rv.S, "0"))
			u.trusted["receivers of methods called through an interface are non-nil pointers"] = true
		}
	}
	env := &SpecEnv{names: names, pkg: u.pkg, what: u.name + " requires"}
	for _, rq := range u.ct.Requires {
		g, q := u.evalSpecBool(rst, rq.E, env, false)
		u.oblige(rst, fmt.Sprintf("refines(%s).requires.%d", ct.Key, rq.N), "refines", rq.Text, g, q)
	}
}

// useAxioms: `uses a b c` brings the named trusted axioms of the contract files into every query of the unit.
func (u *Unit) useAxioms(st *State) {
	for _, name := range strings.Fields(strings.ReplaceAll(u.ct.Flags["uses"], ",", " ")) {
		found := false
		for _, ax := range u.eng.cs.Axioms {
			if ax.Name != name {
				continue
			}
			found = true
			env := &SpecEnv{names: map[string]*Val{}, pkg: u.eng.pkgOr(ax.Pkg, u.pkg), what: "axiom " + name}
			g, _ := u.evalSpecBool(st, ax.E, env, true)
			u.d.axiom(g)
			u.trusted["axiom "+name+": "+ax.Text] = true
		}
		for _, lm := range u.eng.cs.Lemmas {
			if lm.Name != name {
				continue
			}
			found = true
			// a lemma is proved as its own obligation; here it is only instantiated
			env := &SpecEnv{names: map[string]*Val{}, pkg: u.eng.pkgOr(lm.Pkg, u.pkg), what: "lemma " + name}
			g, _ := u.evalSpecBool(st, lm.E, env, true)
			u.d.axiom(g)
		}
		if !found {
			u.eng.specError("%s: uses unknown axiom or lemma %s", u.name, name)
		}
	}
}
