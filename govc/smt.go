package main

// SMT-LIB term helpers and the solver portfolio.

import (
	"regexp"
	"bytes"
	"context"
	"fmt"
	"os"
	"os/exec"
	"path/filepath"
	"strings"
	"sync"
	"time"
)

const (
	SInt  = "Int"
	SBool = "Bool"
	SStr  = "String"
	SF64  = "(_ FloatingPoint 11 53)"
	SF32  = "(_ FloatingPoint 8 24)"
)

func arrSort(k, v string) string { return "(Array " + k + " " + v + ")" }

func app(f string, args ...string) string {
	if len(args) == 0 {
		return f
	}
	return "(" + f + " " + strings.Join(args, " ") + ")"
}

func tAnd(xs ...string) string {
	var ys []string
	for _, x := range xs {
		if x == "true" || x == "" {
			continue
		}
		if x == "false" {
			return "false"
		}
		ys = append(ys, x)
	}
	switch len(ys) {
	case 0:
		return "true"
	case 1:
		return ys[0]
	}
	return app("and", ys...)
}

func tOr(xs ...string) string {
	var ys []string
	for _, x := range xs {
		if x == "false" || x == "" {
			continue
		}
		if x == "true" {
			return "true"
		}
		ys = append(ys, x)
	}
	switch len(ys) {
	case 0:
		return "false"
	case 1:
		return ys[0]
	}
	return app("or", ys...)
}

func tNot(x string) string {
	switch x {
	case "true":
		return "false"
	case "false":
		return "true"
	}
	if strings.HasPrefix(x, "(not ") && balanced(x[5:len(x)-1]) {
		return x[5 : len(x)-1]
	}
	return app("not", x)
}

func balanced(s string) bool {
	d := 0
	inq := false
	for i := 0; i < len(s); i++ {
		c := s[i]
		if c == '"' {
			inq = !inq
		}
		if inq {
			continue
		}
		if c == '(' {
			d++
		} else if c == ')' {
			d--
			if d < 0 {
				return false
			}
		} else if c == ' ' && d == 0 {
			return false
		}
	}
	return d == 0
}

func tImp(a, b string) string {
	if a == "true" {
		return b
	}
	if a == "false" || b == "true" {
		return "true"
	}
	return app("=>", a, b)
}

func tEq(a, b string) string {
	if a == b {
		return "true"
	}
	return app("=", a, b)
}

func tIte(c, a, b string) string {
	if c == "true" {
		return a
	}
	if c == "false" {
		return b
	}
	if a == b {
		return a
	}
	return app("ite", c, a, b)
}

func intLit(n int64) string {
	if n < 0 {
		return fmt.Sprintf("(- %d)", -n)
	}
	return fmt.Sprintf("%d", n)
}

func strLit(s string) string {
	var b strings.Builder
	b.WriteByte('"')
	for _, r := range s {
		switch {
		case r == '"':
			b.WriteString(`""`)
		case r < 32 || r > 126 || r == '\\':
			fmt.Fprintf(&b, `\u{%x}`, r)
		default:
			b.WriteRune(r)
		}
	}
	b.WriteByte('"')
	return b.String()
}

func quoteSym(s string) string {
	for _, c := range s {
		if !(c >= 'a' && c <= 'z' || c >= 'A' && c <= 'Z' || c >= '0' && c <= '9' || c == '_' || c == '.' || c == '!' || c == '$' || c == '#' || c == '@' || c == '-' || c == '/' || c == '*' || c == '[' || c == ']') {
			return "|" + strings.ReplaceAll(s, "|", "_") + "|"
		}
	}
	if strings.ContainsAny(s, "#@[]/*") || (s != "" && s[0] >= '0' && s[0] <= '9') {
		return "|" + s + "|"
	}
	return s
}

const preamble = `(define-fun godiv ((a Int) (b Int)) Int (ite (>= a 0) (ite (> b 0) (div a b) (- (div a (- b)))) (ite (> b 0) (- (div (- a) b)) (div (- a) (- b)))))
(define-fun gomod ((a Int) (b Int)) Int (- a (* b (godiv a b))))
`

// ---------------------------------------------------------------------------
// solver portfolio

type SolverResult struct {
	Status string // unsat | sat | unknown | timeout | error
	Solver string
	Ms     int64
	Model  string
	Raw    string
}

type solverSpec struct {
	name string
	args func(file string, timeoutS int) []string
	prep func(q string) string
}

var solvers = []solverSpec{
	{"z3-new", func(f string, t int) []string { return []string{"z3-new", fmt.Sprintf("-T:%d", t), f} }, nil},
	{"z3", func(f string, t int) []string { return []string{"z3", fmt.Sprintf("-T:%d", t), f} }, nil},
	{"cvc5", func(f string, t int) []string {
		return []string{"cvc5", "--lang=smt2", "--produce-models", "--strings-exp", fmt.Sprintf("--tlimit=%d", t*1000), f}
	}, nil},
	{"z3/strabs", func(f string, t int) []string { return []string{"z3", fmt.Sprintf("-T:%d", t), f} }, abstractStrings},
	{"z3-new/strabs", func(f string, t int) []string { return []string{"z3-new", fmt.Sprintf("-T:%d", t), f} }, abstractStrings},
}

// String abstraction. A query that uses strings only as opaque values (no str.* operation: equality, array indices and
// uninterpreted functions only) is also posed with String replaced by an uninterpreted sort and the literals by
// pairwise distinct constants. Every model of the original is a model of the abstraction, so `unsat` of the
// abstraction is `unsat` of the original; any other answer of these racers is ignored. Solvers are far better at
// quantifier instantiation over an uninterpreted sort than over the sequence theory.
var smtTok = regexp.MustCompile(`"(?:[^"]|"")*"|\|[^|]*\||[()]|[^\s()|"]+|\s+`)

func abstractStrings(q string) string {
	if !strings.Contains(q, "String") || strings.Contains(q, "str.") || strings.Contains(q, "re.") || strings.Contains(q, "seq.") {
		return ""
	}
	lits := map[string]string{}
	var order []string
	var b strings.Builder
	for _, t := range smtTok.FindAllString(q, -1) {
		switch {
		case t == "String":
			b.WriteString("StrU")
		case strings.HasPrefix(t, "\""):
			c, ok := lits[t]
			if !ok {
				c = fmt.Sprintf("strlit!%d", len(lits))
				lits[t] = c
				order = append(order, c)
			}
			b.WriteString(c)
		default:
			b.WriteString(t)
		}
	}
	hdr := "(declare-sort StrU 0)\n"
	for _, c := range order {
		hdr += "(declare-const " + c + " StrU)\n"
	}
	if len(order) > 1 {
		hdr += "(assert (distinct " + strings.Join(order, " ") + "))\n"
	}
	return hdr + b.String()
}

var solverSem = make(chan struct{}, 16)

// runQuery races the solvers on the query text. The query must end with
// (check-sat)(get-model). First definite answer (sat/unsat) wins.
func runQuery(dir, name, body string, timeoutS int, hasQuant bool, seed int) SolverResult {
	os.MkdirAll(dir, 0o755)
	file := filepath.Join(dir, sanitizeFile(name)+".smt2")
	logic := ""
	full := logic + preamble + body + "\n(check-sat)\n(get-model)\n"
	os.WriteFile(file, []byte(full), 0o644)
	ctx, cancel := context.WithCancel(context.Background())
	defer cancel()
	type r struct{ res SolverResult }
	ch := make(chan SolverResult, len(solvers))
	var wg sync.WaitGroup
	order := make([]solverSpec, len(solvers))
	for i := range solvers {
		order[i] = solvers[(i+seed)%len(solvers)]
	}
	for _, s := range order {
		s := s
		wg.Add(1)
		go func() {
			defer wg.Done()
			solverSem <- struct{}{}
			defer func() { <-solverSem }()
			if ctx.Err() != nil {
				ch <- SolverResult{Status: "cancelled", Solver: s.name}
				return
			}
			f := file
			if s.prep != nil {
				aq := s.prep(full)
				if aq == "" {
					ch <- SolverResult{Status: "cancelled", Solver: s.name}
					return
				}
				f = file + ".strabs"
				os.WriteFile(f, []byte(aq), 0o644)
			}
			if s.name == "cvc5" {
				// cvc5 wants a logic and produce-models before it
				f = file + ".cvc5"
				os.WriteFile(f, []byte("(set-logic ALL)\n"+full), 0o644)
			}
			a := s.args(f, timeoutS)
			start := time.Now()
			cmd := exec.CommandContext(ctx, a[0], a[1:]...)
			var out bytes.Buffer
			cmd.Stdout = &out
			cmd.Stderr = &out
			cmd.Run()
			ms := time.Since(start).Milliseconds()
			txt := out.String()
			// drop solver warnings in front of the answer
			for strings.HasPrefix(txt, "WARNING") || strings.HasPrefix(txt, "(warning") {
				i := strings.Index(txt, "\n")
				if i < 0 {
					break
				}
				txt = txt[i+1:]
			}
			first := strings.TrimSpace(strings.SplitN(txt, "\n", 2)[0])
			res := SolverResult{Solver: s.name, Ms: ms, Raw: txt}
			switch {
			case first == "unsat":
				res.Status = "unsat"
			case first == "sat":
				res.Status = "sat"
				if i := strings.Index(txt, "\n"); i >= 0 {
					res.Model = txt[i+1:]
				}
			case first == "unknown":
				res.Status = "unknown"
			case first == "timeout" || strings.Contains(txt, "timeout") || strings.Contains(txt, "interrupted"):
				res.Status = "timeout"
			default:
				if ctx.Err() != nil {
					res.Status = "cancelled"
				} else if ms >= int64(timeoutS)*1000-200 {
					res.Status = "timeout"
				} else {
					res.Status = "error"
				}
			}
			if s.prep != nil && res.Status != "unsat" {
				// only a refutation carries over from the abstraction
				res.Status = "cancelled"
			}
			ch <- res
		}()
	}
	go func() { wg.Wait(); close(ch) }()
	var best SolverResult
	best.Status = "unknown"
	var raws []string
	for res := range ch {
		if res.Status == "unsat" || res.Status == "sat" {
			cancel()
			// drain
			go func() {
				for range ch {
				}
			}()
			return res
		}
		if res.Status != "cancelled" {
			raws = append(raws, res.Solver+": "+res.Status+" "+firstLines(res.Raw, 3))
			if res.Status == "error" && best.Status == "unknown" {
				best.Status = "unknown"
			}
			if res.Status == "timeout" {
				best.Status = "timeout"
			}
			if res.Ms > best.Ms {
				best.Ms = res.Ms
			}
		}
	}
	best.Solver = "none"
	best.Raw = strings.Join(raws, "\n")
	return best
}

func firstLines(s string, n int) string {
	ls := strings.Split(s, "\n")
	if len(ls) > n {
		ls = ls[:n]
	}
	return strings.Join(ls, " | ")
}

func sanitizeFile(s string) string {
	var b strings.Builder
	for _, c := range s {
		if c >= 'a' && c <= 'z' || c >= 'A' && c <= 'Z' || c >= '0' && c <= '9' || c == '_' || c == '.' || c == '-' || c == '#' || c == '@' {
			b.WriteRune(c)
		} else {
			b.WriteByte('_')
		}
	}
	return b.String()
}
