package main

// Contract files (//@ lines in zz_contracts_verif.go) and the spec expression parser.

import (
	"fmt"
	"os"
	"strconv"
	"strings"
	"unicode"
)

// ---------------------------------------------------------------------------
// spec expressions

type QVar struct {
	Name, Type string
	Pkg        string
}

type SExpr struct {
	Op    string // id int str float bool nil sel idx call un bin forall exists old slice
	Name  string
	Args  []*SExpr
	QVars []QVar
}

func (e *SExpr) String() string {
	switch e.Op {
	case "id", "int", "float", "bool":
		return e.Name
	case "nil":
		return "nil"
	case "str":
		return strconv.Quote(e.Name)
	case "sel":
		return e.Args[0].String() + "." + e.Name
	case "idx":
		return e.Args[0].String() + "[" + e.Args[1].String() + "]"
	case "call":
		var as []string
		for _, a := range e.Args[1:] {
			as = append(as, a.String())
		}
		return e.Args[0].String() + "(" + strings.Join(as, ", ") + ")"
	case "un":
		return e.Name + e.Args[0].String()
	case "bin":
		return "(" + e.Args[0].String() + " " + e.Name + " " + e.Args[1].String() + ")"
	case "forall", "exists":
		var vs []string
		for _, q := range e.QVars {
			vs = append(vs, q.Name+" "+q.Type)
		}
		return "(" + e.Op + " " + strings.Join(vs, ", ") + " :: " + e.Args[0].String() + ")"
	case "old":
		return "old(" + e.Args[0].String() + ")"
	}
	return "?" + e.Op
}

type tok struct {
	k string // id num str op eof
	s string
}

func lexSpec(s string) ([]tok, error) {
	var out []tok
	i := 0
	for i < len(s) {
		c := s[i]
		switch {
		case c == ' ' || c == '\t':
			i++
		case c == '/' && i+1 < len(s) && s[i+1] == '/':
			i = len(s)
		case unicode.IsLetter(rune(c)) || c == '_':
			j := i
			for j < len(s) && (unicode.IsLetter(rune(s[j])) || unicode.IsDigit(rune(s[j])) || s[j] == '_' || s[j] == '$') {
				j++
			}
			out = append(out, tok{"id", s[i:j]})
			i = j
		case c >= '0' && c <= '9':
			j := i
			for j < len(s) && (s[j] >= '0' && s[j] <= '9' || s[j] == '_' || s[j] == '.' || s[j] == 'e' || s[j] == 'x' || (s[j] >= 'a' && s[j] <= 'f' && strings.HasPrefix(s[i:], "0x"))) {
				if s[j] == '.' && j+1 < len(s) && !(s[j+1] >= '0' && s[j+1] <= '9') {
					break
				}
				j++
			}
			out = append(out, tok{"num", strings.ReplaceAll(s[i:j], "_", "")})
			i = j
		case c == '"':
			j := i + 1
			for j < len(s) && s[j] != '"' {
				if s[j] == '\\' {
					j++
				}
				j++
			}
			if j >= len(s) {
				return nil, fmt.Errorf("unterminated string")
			}
			v, err := strconv.Unquote(s[i : j+1])
			if err != nil {
				return nil, err
			}
			out = append(out, tok{"str", v})
			i = j + 1
		default:
			ops := []string{"<==>", "==>", "::", "==", "!=", "<=", ">=", "&&", "||", "<", ">", "+", "-", "*", "/", "%", "!", "(", ")", "[", "]", ".", ",", ":", "&", "{", "}"}
			found := false
			for _, o := range ops {
				if strings.HasPrefix(s[i:], o) {
					out = append(out, tok{"op", o})
					i += len(o)
					found = true
					break
				}
			}
			if !found {
				return nil, fmt.Errorf("bad char %q in spec %q", c, s)
			}
		}
	}
	out = append(out, tok{"eof", ""})
	return out, nil
}

type sparser struct {
	t []tok
	p int
}

func (p *sparser) peek() tok { return p.t[p.p] }
func (p *sparser) next() tok { t := p.t[p.p]; p.p++; return t }
func (p *sparser) isOp(s string) bool {
	return p.t[p.p].k == "op" && p.t[p.p].s == s
}
func (p *sparser) expect(s string) error {
	if !p.isOp(s) {
		return fmt.Errorf("expected %q, got %q", s, p.peek().s)
	}
	p.p++
	return nil
}

func parseSpec(s string) (*SExpr, error) {
	ts, err := lexSpec(s)
	if err != nil {
		return nil, err
	}
	p := &sparser{t: ts}
	e, err := p.expr(0)
	if err != nil {
		return nil, fmt.Errorf("%v in %q", err, s)
	}
	if p.peek().k != "eof" {
		return nil, fmt.Errorf("trailing %q in %q", p.peek().s, s)
	}
	return e, nil
}

var binPrec = map[string]int{"<==>": 1, "==>": 2, "||": 3, "&&": 4, "==": 5, "!=": 5, "<": 5, "<=": 5, ">": 5, ">=": 5, "+": 6, "-": 6, "*": 7, "/": 7, "%": 7}

func (p *sparser) expr(min int) (*SExpr, error) {
	if t := p.peek(); t.k == "id" && (t.s == "forall" || t.s == "exists") {
		return p.quant()
	}
	lhs, err := p.unary()
	if err != nil {
		return nil, err
	}
	for {
		t := p.peek()
		if t.k != "op" {
			break
		}
		pr, ok := binPrec[t.s]
		if !ok || pr < min {
			break
		}
		p.next()
		nmin := pr + 1
		if t.s == "==>" {
			nmin = pr // right assoc
		}
		var rhs *SExpr
		if q := p.peek(); q.k == "id" && (q.s == "forall" || q.s == "exists") {
			rhs, err = p.quant()
		} else {
			rhs, err = p.expr(nmin)
		}
		if err != nil {
			return nil, err
		}
		lhs = &SExpr{Op: "bin", Name: t.s, Args: []*SExpr{lhs, rhs}}
	}
	return lhs, nil
}

func (p *sparser) quant() (*SExpr, error) {
	op := p.next().s
	var qs []QVar
	for {
		n := p.next()
		if n.k != "id" {
			return nil, fmt.Errorf("quantifier variable expected")
		}
		ty := ""
		for !(p.isOp("::") || p.isOp(",") || p.peek().k == "eof") {
			ty += p.next().s
		}
		qs = append(qs, QVar{Name: n.s, Type: ty})
		if p.isOp(",") {
			p.next()
			continue
		}
		break
	}
	if err := p.expect("::"); err != nil {
		return nil, err
	}
	body, err := p.expr(0)
	if err != nil {
		return nil, err
	}
	return &SExpr{Op: op, QVars: qs, Args: []*SExpr{body}}, nil
}

func (p *sparser) unary() (*SExpr, error) {
	if p.isOp("!") || p.isOp("-") {
		o := p.next().s
		x, err := p.unary()
		if err != nil {
			return nil, err
		}
		return &SExpr{Op: "un", Name: o, Args: []*SExpr{x}}, nil
	}
	return p.postfix()
}

func (p *sparser) postfix() (*SExpr, error) {
	x, err := p.primary()
	if err != nil {
		return nil, err
	}
	for {
		switch {
		case p.isOp("."):
			p.next()
			n := p.next()
			if n.k != "id" {
				return nil, fmt.Errorf("field name expected after .")
			}
			x = &SExpr{Op: "sel", Name: n.s, Args: []*SExpr{x}}
		case p.isOp("["):
			p.next()
			if p.isOp(":") { // x[:hi]
				p.next()
				hi, err := p.expr(0)
				if err != nil {
					return nil, err
				}
				if err := p.expect("]"); err != nil {
					return nil, err
				}
				x = &SExpr{Op: "slice", Args: []*SExpr{x, nil, hi}}
				continue
			}
			i, err := p.expr(0)
			if err != nil {
				return nil, err
			}
			if p.isOp(":") {
				p.next()
				var hi *SExpr
				if !p.isOp("]") {
					hi, err = p.expr(0)
					if err != nil {
						return nil, err
					}
				}
				if err := p.expect("]"); err != nil {
					return nil, err
				}
				x = &SExpr{Op: "slice", Args: []*SExpr{x, i, hi}}
				continue
			}
			if err := p.expect("]"); err != nil {
				return nil, err
			}
			x = &SExpr{Op: "idx", Args: []*SExpr{x, i}}
		case p.isOp("("):
			p.next()
			args := []*SExpr{x}
			for !p.isOp(")") {
				a, err := p.expr(0)
				if err != nil {
					return nil, err
				}
				args = append(args, a)
				if p.isOp(",") {
					p.next()
				} else {
					break
				}
			}
			if err := p.expect(")"); err != nil {
				return nil, err
			}
			if x.Op == "id" && x.Name == "old" && len(args) == 2 {
				x = &SExpr{Op: "old", Args: []*SExpr{args[1]}}
			} else {
				x = &SExpr{Op: "call", Args: args}
			}
		default:
			return x, nil
		}
	}
}

func (p *sparser) primary() (*SExpr, error) {
	t := p.next()
	switch t.k {
	case "id":
		switch t.s {
		case "true", "false":
			return &SExpr{Op: "bool", Name: t.s}, nil
		case "nil":
			return &SExpr{Op: "nil"}, nil
		}
		return &SExpr{Op: "id", Name: t.s}, nil
	case "num":
		if strings.ContainsAny(t.s, ".e") && !strings.HasPrefix(t.s, "0x") {
			return &SExpr{Op: "float", Name: t.s}, nil
		}
		return &SExpr{Op: "int", Name: t.s}, nil
	case "str":
		return &SExpr{Op: "str", Name: t.s}, nil
	case "op":
		if t.s == "(" {
			e, err := p.expr(0)
			if err != nil {
				return nil, err
			}
			if err := p.expect(")"); err != nil {
				return nil, err
			}
			return e, nil
		}
	}
	return nil, fmt.Errorf("unexpected token %q", t.s)
}

// ---------------------------------------------------------------------------
// contract blocks

type Clause struct {
	Text string
	E    *SExpr
	N    int // ordinal within its kind (1-based)
	Assume bool
	Bind   string // `at call … bind name = expr`: ghost local // at-call clause that is assumed (an explicit, listed assumption about the input) instead of proved
}

type LoopSpec struct {
	Invs      []*Clause
	Decreases *Clause
	Unroll    int
}

type Contract struct {
	Kind     string // func interface functype extern
	Pkg      string // package path
	Key      string // Recv.Name or Name (closures: Name$1)
	File     string
	Line     int
	Props    []string
	Requires []*Clause
	Ensures  []*Clause
	Assumes  []*Clause // unchecked assumptions on entry (listed)
	Defines  []*Clause // definitional ensures: assumed at call sites, not checked on the body (listed as trusted)
	CallAsserts []*Clause // `at call <callee> <n> assert <expr>`: Text = "callee#n", E over the caller's locals
	OnPanic  []*Clause // exceptional postconditions: hold when the function is left by a panic
	Records  []*Clause // ghost records: Text = ghost var name, E = value (post-state), applied at call sites
	Modifies []string  // raw items: "T.f", "x.f", "*" , "ghost name"
	Loops    map[int]*LoopSpec
	Params   []string // for extern/functype/interface: parameter names
	Results  []string
	Flags    map[string]string // trusted safety nopanic overflow pure strings etc.
	Used     bool
	Checked  bool
}

type SpecFunc struct {
	Pkg     string
	Name    string
	Params  []QVar
	Ret     string
	Body    *SExpr // nil => uninterpreted
	Text    string
	Trusted bool
}

type Axiom struct {
	Pkg, Name, Text string
	E               *SExpr
	Props           []string
}

type TypeSpec struct {
	Pkg, Name string
	RepInv    []*Clause
	Guarded   map[string][]string // mutex field -> fields
	Shared    []string
}

type ContractSet struct {
	Funcs   map[string]*Contract // pkgpath.Key
	Specs   map[string]*SpecFunc // name (global namespace)
	Axioms  []*Axiom
	Lemmas  []*Axiom
	Types   map[string]*TypeSpec // pkgpath.Type
	Ghosts  map[string]QVar      // ghost global name -> type
	GhostFields map[string]QVar // ghost field name -> type
	Recorded map[string]bool // ghost vars assigned by records clauses (definitional)
	Errors  []string
	RawScan []string // every trusted/assume/pure/bounded line, for evidence
}

func newContractSet() *ContractSet {
	return &ContractSet{Funcs: map[string]*Contract{}, Specs: map[string]*SpecFunc{}, Types: map[string]*TypeSpec{}, Ghosts: map[string]QVar{}, GhostFields: map[string]QVar{}, Recorded: map[string]bool{}}
}

// parseContractFile reads one zz_contracts_verif.go file.
func (cs *ContractSet) parseContractFile(pkgPath, file string) {
	data, err := os.ReadFile(file)
	if err != nil {
		cs.Errors = append(cs.Errors, err.Error())
		return
	}
	var cur *Contract
	var curType *TypeSpec
	errf := func(ln int, f string, a ...interface{}) {
		cs.Errors = append(cs.Errors, fmt.Sprintf("%s:%d: %s", file, ln, fmt.Sprintf(f, a...)))
	}
	lines := strings.Split(string(data), "\n")
	for ln0 := 0; ln0 < len(lines); ln0++ {
		ln := ln0 + 1
		l := strings.TrimSpace(lines[ln0])
		if !strings.HasPrefix(l, "//@") {
			continue
		}
		l = strings.TrimSpace(l[3:])
		// continuation lines: "//@ \ ..." appended to previous
		for ln0+1 < len(lines) {
			nx := strings.TrimSpace(lines[ln0+1])
			if strings.HasPrefix(nx, "//@") && strings.HasPrefix(strings.TrimSpace(nx[3:]), "\\") {
				l += " " + strings.TrimSpace(strings.TrimSpace(nx[3:])[1:])
				ln0++
			} else {
				break
			}
		}
		if l == "" {
			continue
		}
		// strip trailing comment
		if i := strings.Index(l, " // "); i >= 0 && !strings.Contains(l[i:], "\"") {
			l = strings.TrimSpace(l[:i])
		}
		word, rest := splitWord(l)
		switch word {
		case "func", "interface", "functype", "extern":
			cur = &Contract{Kind: word, Pkg: pkgPath, File: file, Line: ln, Loops: map[int]*LoopSpec{}, Flags: map[string]string{}}
			curType = nil
			key, params, results, err := parseFuncHeader(rest)
			if word == "extern" {
				key, params, err = parseExternHeader(rest)
				results = nil
			}
			if err != nil {
				errf(ln, "%v", err)
				cur = nil
				continue
			}
			cur.Key, cur.Params, cur.Results = key, params, results
			full := pkgPath + "." + key
			if word == "extern" {
				full = key // extern keys are fully qualified already
				cur.Flags["trusted"] = "extern"
				cs.RawScan = append(cs.RawScan, "trusted extern "+key)
			}
			if _, dup := cs.Funcs[full]; dup {
				errf(ln, "duplicate contract for %s", full)
			}
			cs.Funcs[full] = cur
		case "spec":
			// spec func name(a T, b U) R = body
			w2, r2 := splitWord(rest)
			if w2 != "func" {
				errf(ln, "spec func expected")
				continue
			}
			sf, err := parseSpecFunc(r2)
			if err != nil {
				errf(ln, "%v", err)
				continue
			}
			sf.Pkg = pkgPath
			if _, dup := cs.Specs[sf.Name]; dup {
				errf(ln, "duplicate spec func %s", sf.Name)
			}
			cs.Specs[sf.Name] = sf
			cur, curType = nil, nil
		case "axiom", "lemma":
			i := strings.Index(rest, ":")
			if i < 0 {
				errf(ln, "axiom name: expr")
				continue
			}
			name := strings.TrimSpace(rest[:i])
			var props []string
			if j := strings.Index(name, " "); j >= 0 {
				props = strings.Fields(name[j:])
				name = name[:j]
			}
			e, err := parseSpec(rest[i+1:])
			if err != nil {
				errf(ln, "%v", err)
				continue
			}
			ax := &Axiom{Pkg: pkgPath, Name: name, Text: strings.TrimSpace(rest[i+1:]), E: e, Props: props}
			if word == "axiom" {
				cs.Axioms = append(cs.Axioms, ax)
				cs.RawScan = append(cs.RawScan, "axiom "+name+": "+ax.Text)
			} else {
				cs.Lemmas = append(cs.Lemmas, ax)
			}
			cur, curType = nil, nil
		case "type":
			curType = &TypeSpec{Pkg: pkgPath, Name: strings.TrimSpace(rest), Guarded: map[string][]string{}}
			cs.Types[pkgPath+"."+curType.Name] = curType
			cur = nil
		case "ghost":
			// ghost var name type   (global ghost variable)
			w2, r2 := splitWord(rest)
			if w2 == "var" {
				n, ty := splitWord(r2)
				cs.Ghosts[n] = QVar{Name: n, Type: strings.TrimSpace(ty), Pkg: pkgPath}
			} else if w2 == "field" {
				n, ty := splitWord(r2)
				cs.GhostFields[n] = QVar{Name: n, Type: strings.TrimSpace(ty), Pkg: pkgPath}
			}
		case "repinv":
			if curType == nil {
				errf(ln, "repinv outside type block")
				continue
			}
			e, err := parseSpec(rest)
			if err != nil {
				errf(ln, "%v", err)
				continue
			}
			curType.RepInv = append(curType.RepInv, &Clause{Text: rest, E: e, N: len(curType.RepInv) + 1})
		case "guarded_by":
			if curType == nil {
				errf(ln, "guarded_by outside type block")
				continue
			}
			i := strings.Index(rest, ":")
			if i < 0 {
				errf(ln, "guarded_by mu: f1 f2")
				continue
			}
			curType.Guarded[strings.TrimSpace(rest[:i])] = strings.Fields(strings.ReplaceAll(rest[i+1:], ",", " "))
		case "shared":
			if curType != nil {
				curType.Shared = append(curType.Shared, strings.Fields(strings.ReplaceAll(rest, ",", " "))...)
			}
		case "property":
			if cur != nil {
				cur.Props = append(cur.Props, strings.Fields(rest)...)
			}
		case "requires", "ensures", "assume", "defines", "onpanic":
			if cur == nil {
				errf(ln, "%s outside func block", word)
				continue
			}
			e, err := parseSpec(rest)
			if err != nil {
				errf(ln, "%v", err)
				continue
			}
			switch word {
			case "requires":
				cur.Requires = append(cur.Requires, &Clause{Text: rest, E: e, N: len(cur.Requires) + 1})
			case "ensures":
				cur.Ensures = append(cur.Ensures, &Clause{Text: rest, E: e, N: len(cur.Ensures) + 1})
			case "onpanic":
				cur.OnPanic = append(cur.OnPanic, &Clause{Text: rest, E: e, N: len(cur.OnPanic) + 1})
			case "defines":
				cur.Defines = append(cur.Defines, &Clause{Text: rest, E: e, N: len(cur.Defines) + 1})
				cs.RawScan = append(cs.RawScan, "defines in "+cur.Key+": "+rest)
			case "assume":
				cur.Assumes = append(cur.Assumes, &Clause{Text: rest, E: e, N: len(cur.Assumes) + 1})
				cs.RawScan = append(cs.RawScan, "assume in "+cur.Key+": "+rest)
			}
		case "at":
			// at call <callee> <ordinal> assert <expr>
			if cur == nil {
				errf(ln, "at outside func block")
				continue
			}
			f := strings.Fields(rest)
			if len(f) >= 4 && f[0] == "return" && f[2] == "assert" {
				ex := strings.TrimSpace(rest[strings.Index(rest, " assert ")+8:])
				e, err := parseSpec(ex)
				if err != nil {
					errf(ln, "%v", err)
					continue
				}
				cur.CallAsserts = append(cur.CallAsserts, &Clause{Text: "return#" + f[1], E: e, N: len(cur.CallAsserts) + 1})
				continue
			}
			if len(f) >= 7 && f[0] == "call" && f[3] == "bind" && f[5] == "=" {
				// at call <callee> <n> bind <name> = <expr>: a ghost local holding the value of expr just before that call
				ex := strings.TrimSpace(rest[strings.Index(rest, " = ")+3:])
				e, err := parseSpec(ex)
				if err != nil {
					errf(ln, "%v", err)
					continue
				}
				cur.CallAsserts = append(cur.CallAsserts, &Clause{Text: f[1] + "#" + f[2], E: e, N: len(cur.CallAsserts) + 1, Bind: f[4]})
				continue
			}
			if len(f) < 5 || f[0] != "call" || (f[3] != "assert" && f[3] != "assume") {
				errf(ln, "at call <callee> <n> assert|assume <expr> | at call <callee> <n> bind <name> = <expr> | at return <n> assert <expr>")
				continue
			}
			kw := " " + f[3] + " "
			ex := strings.TrimSpace(rest[strings.Index(rest, kw)+len(kw):])
			e, err := parseSpec(ex)
			if err != nil {
				errf(ln, "%v", err)
				continue
			}
			cur.CallAsserts = append(cur.CallAsserts, &Clause{Text: f[1] + "#" + f[2], E: e, N: len(cur.CallAsserts) + 1, Assume: f[3] == "assume"})
			if f[3] == "assume" {
				cs.RawScan = append(cs.RawScan, "assume at call "+f[1]+"#"+f[2]+" in "+cur.Key+": "+ex)
			}
		case "records":
			if cur == nil {
				errf(ln, "records outside func block")
				continue
			}
			i := strings.Index(rest, "=")
			if i < 0 {
				errf(ln, "records name = expr")
				continue
			}
			e, err := parseSpec(rest[i+1:])
			if err != nil {
				errf(ln, "%v", err)
				continue
			}
			name := strings.TrimSpace(rest[:i])
			cur.Records = append(cur.Records, &Clause{Text: name, E: e, N: len(cur.Records) + 1})
			cs.Recorded[name] = true
		case "modifies":
			if cur != nil {
				for _, m := range strings.Split(rest, ",") {
					cur.Modifies = append(cur.Modifies, strings.TrimSpace(m))
				}
				if _, ok := cur.Flags["modifies"]; !ok {
					cur.Flags["modifies"] = "yes"
				}
			}
		case "loop":
			if cur == nil {
				errf(ln, "loop outside func block")
				continue
			}
			nS, r2 := splitWord(rest)
			n, err := strconv.Atoi(nS)
			if err != nil {
				errf(ln, "loop ordinal expected")
				continue
			}
			ls := cur.Loops[n]
			if ls == nil {
				ls = &LoopSpec{}
				cur.Loops[n] = ls
			}
			kind, r3 := splitWord(r2)
			switch kind {
			case "invariant", "decreases":
				e, err := parseSpec(r3)
				if err != nil {
					errf(ln, "%v", err)
					continue
				}
				if kind == "invariant" {
					ls.Invs = append(ls.Invs, &Clause{Text: r3, E: e, N: len(ls.Invs) + 1})
				} else {
					ls.Decreases = &Clause{Text: r3, E: e, N: 1}
				}
			case "unroll":
				ls.Unroll, _ = strconv.Atoi(strings.TrimSpace(r3))
				cs.RawScan = append(cs.RawScan, fmt.Sprintf("bounded unroll %d in %s loop %d", ls.Unroll, cur.Key, n))
			default:
				errf(ln, "unknown loop clause %q", kind)
			}
		case "trusted", "safety", "nopanic", "overflow", "pure", "strings", "atomic-once", "replay", "note", "inline", "nomodel", "constructor", "requires-lock", "holds-lock", "frame", "uses", "refines", "may-panic", "helper", "functional", "pureparam", "pureresult":
			if cur != nil {
				if rest == "" {
					rest = "yes"
				}
				cur.Flags[word] = rest
				if word == "pureparam" {
					cs.RawScan = append(cs.RawScan, "pureparam "+cur.Key+" ("+rest+"): calls of this function-typed parameter are modelled as fnapp(value, args)")
				}
				if word == "trusted" || word == "pure" {
					cs.RawScan = append(cs.RawScan, word+" "+cur.Kind+" "+cur.Key+" ("+rest+")")
				}
			} else if curType == nil {
				errf(ln, "%s outside block", word)
			}
		default:
			errf(ln, "unknown directive %q", word)
		}
	}
}

func splitWord(s string) (string, string) {
	s = strings.TrimSpace(s)
	i := strings.IndexAny(s, " \t")
	if i < 0 {
		return s, ""
	}
	return s[:i], strings.TrimSpace(s[i:])
}

// parseFuncHeader parses "(r *T) Name", "Name", "I.M", "pkg/path.Name(a, b) (r, err)".
func parseFuncHeader(s string) (key string, params, results []string, err error) {
	s = strings.TrimSpace(s)
	recv := ""
	if strings.HasPrefix(s, "(") {
		i := strings.Index(s, ")")
		if i < 0 {
			return "", nil, nil, fmt.Errorf("bad receiver in %q", s)
		}
		r := strings.TrimSpace(s[1:i])
		fs := strings.Fields(r)
		recv = strings.TrimPrefix(fs[len(fs)-1], "*")
		s = strings.TrimSpace(s[i+1:])
	}
	name := s
	if i := strings.Index(s, "("); i >= 0 {
		name = strings.TrimSpace(s[:i])
		rest := s[i:]
		j := strings.Index(rest, ")")
		if j < 0 {
			return "", nil, nil, fmt.Errorf("bad params in %q", s)
		}
		for _, p := range strings.Split(rest[1:j], ",") {
			p = strings.TrimSpace(p)
			if p != "" {
				params = append(params, strings.Fields(p)[0])
			}
		}
		rest = strings.TrimSpace(rest[j+1:])
		if strings.HasPrefix(rest, "(") && strings.HasSuffix(rest, ")") {
			for _, p := range strings.Split(rest[1:len(rest)-1], ",") {
				p = strings.TrimSpace(p)
				if p != "" {
					results = append(results, strings.Fields(p)[0])
				}
			}
		}
	}
	if recv != "" {
		key = recv + "." + name
	} else {
		key = name
	}
	if key == "" {
		err = fmt.Errorf("empty function name")
	}
	return
}

func parseSpecFunc(s string) (*SpecFunc, error) {
	i := strings.Index(s, "(")
	if i < 0 {
		return nil, fmt.Errorf("spec func: ( expected")
	}
	sf := &SpecFunc{Name: strings.TrimSpace(s[:i]), Text: s}
	depth := 0
	j := i
	for ; j < len(s); j++ {
		if s[j] == '(' {
			depth++
		} else if s[j] == ')' {
			depth--
			if depth == 0 {
				break
			}
		}
	}
	if j >= len(s) {
		return nil, fmt.Errorf("spec func: ) expected")
	}
	for _, p := range strings.Split(s[i+1:j], ",") {
		p = strings.TrimSpace(p)
		if p == "" {
			continue
		}
		n, ty := splitWord(p)
		sf.Params = append(sf.Params, QVar{Name: n, Type: strings.ReplaceAll(ty, " ", "")})
	}
	rest := strings.TrimSpace(s[j+1:])
	if k := strings.Index(rest, "="); k >= 0 && !strings.HasPrefix(rest[k:], "==") {
		sf.Ret = strings.TrimSpace(rest[:k])
		e, err := parseSpec(rest[k+1:])
		if err != nil {
			return nil, err
		}
		sf.Body = e
	} else {
		sf.Ret = rest
	}
	if sf.Ret == "" {
		sf.Ret = "bool"
	}
	return sf, nil
}

// parseExternHeader: "<go FullName>(p1, p2)" -- the key is the FullName verbatim, e.g. "(net/http.ResponseWriter).WriteHeader".
func parseExternHeader(s string) (key string, params []string, err error) {
	s = strings.TrimSpace(s)
	if !strings.HasSuffix(s, ")") {
		return s, nil, nil
	}
	d := 0
	for i := len(s) - 1; i >= 0; i-- {
		if s[i] == ')' {
			d++
		} else if s[i] == '(' {
			d--
			if d == 0 {
				key = strings.TrimSpace(s[:i])
				for _, p := range strings.Split(s[i+1:len(s)-1], ",") {
					if p = strings.TrimSpace(p); p != "" {
						params = append(params, p)
					}
				}
				if key == "" {
					return "", nil, fmt.Errorf("extern: empty name in %q", s)
				}
				return
			}
		}
	}
	return "", nil, fmt.Errorf("extern: bad header %q", s)
}
