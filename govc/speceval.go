package main

// Evaluation of spec expressions in a symbolic state.

import (
	"fmt"
	"go/ast"
	"go/constant"
	"go/parser"
	"go/token"
	"go/types"
	"math"
	"strconv"
	"strings"

	"golang.org/x/tools/go/packages"
)

type SpecEnv struct {
	names    map[string]*Val
	oldNames map[string]*Val // values of the same names in the pre-state (nil => same as names)
	old      *State          // pre-state for old(); nil => old() not allowed
	pkg      *packages.Package
	scopePos token.Pos // position for resolving Go locals (loop invariants), 0 = none
	loopN    int
	loopEntry *State // state in which the loop was first reached (loopentry())
	inOld    bool
	what     string
}

func (env *SpecEnv) child() *SpecEnv {
	n := *env
	n.names = make(map[string]*Val, len(env.names)+2)
	for k, v := range env.names {
		n.names[k] = v
	}
	return &n
}

// resolveType turns a type written in a contract into a go/types type.
func (u *Unit) resolveType(pkg *packages.Package, s string) types.Type {
	s = strings.TrimSpace(s)
	switch s {
	case "int", "Int":
		return types.Typ[types.Int]
	case "int64":
		return types.Typ[types.Int64]
	case "uint64":
		return types.Typ[types.Uint64]
	case "string":
		return types.Typ[types.String]
	case "bool":
		return types.Typ[types.Bool]
	case "float64":
		return types.Typ[types.Float64]
	case "error":
		return types.Universe.Lookup("error").Type()
	case "any", "interface{}":
		return types.NewInterfaceType(nil, nil)
	case "ref":
		return types.Typ[types.UnsafePointer]
	}
	ex, err := parser.ParseExpr(s)
	if err != nil {
		u.eng.specError("cannot parse type %q: %v", s, err)
		return types.Typ[types.Int]
	}
	return u.resolveTypeExpr(pkg, ex)
}

func (u *Unit) resolveTypeExpr(pkg *packages.Package, ex ast.Expr) types.Type {
	switch x := ex.(type) {
	case *ast.StarExpr:
		return types.NewPointer(u.resolveTypeExpr(pkg, x.X))
	case *ast.ArrayType:
		return types.NewSlice(u.resolveTypeExpr(pkg, x.Elt))
	case *ast.MapType:
		return types.NewMap(u.resolveTypeExpr(pkg, x.Key), u.resolveTypeExpr(pkg, x.Value))
	case *ast.Ident:
		if o := types.Universe.Lookup(x.Name); o != nil {
			if tn, ok := o.(*types.TypeName); ok {
				return tn.Type()
			}
		}
		if o := pkg.Types.Scope().Lookup(x.Name); o != nil {
			if tn, ok := o.(*types.TypeName); ok {
				return tn.Type()
			}
		}
	case *ast.SelectorExpr:
		if id, ok := x.X.(*ast.Ident); ok {
			if p := u.eng.findImport(pkg, id.Name); p != nil {
				if o := p.Scope().Lookup(x.Sel.Name); o != nil {
					if tn, ok := o.(*types.TypeName); ok {
						return tn.Type()
					}
				}
			}
		}
	case *ast.InterfaceType:
		return types.NewInterfaceType(nil, nil)
	}
	u.eng.specError("cannot resolve type %s in contract (package %s)", exprString(ex), pkg.PkgPath)
	return types.Typ[types.Int]
}

func (e *Engine) findImport(pkg *packages.Package, name string) *types.Package {
	for path, ip := range pkg.Imports {
		if ip.Name == name || shortPkg(path) == name {
			return ip.Types
		}
	}
	// any loaded package with that name
	for _, p := range e.pkgs {
		if p.Name == name {
			return p.Types
		}
	}
	for _, p := range e.allPkgs {
		if p.Name == name {
			return p.Types
		}
	}
	return nil
}

func (e *Engine) specError(f string, a ...interface{}) {
	m := fmt.Sprintf(f, a...)
	for _, x := range e.cs.Errors {
		if x == m {
			return
		}
	}
	e.cs.Errors = append(e.cs.Errors, m)
}

var bvCounter int

// evalSpecBool evaluates a boolean spec expression; returns term and whether it contains quantifiers.
func (u *Unit) evalSpecBool(st *State, e *SExpr, env *SpecEnv, assume bool) (string, bool) {
	v, q := u.evalSpec(st, e, env, assume)
	if v == nil || v.S == "" {
		return "true", q
	}
	return v.S, q
}

func (u *Unit) evalSpec(st *State, e *SExpr, env *SpecEnv, assume bool) (*Val, bool) {
	st.noFacts++
	defer func() { st.noFacts-- }()
	q := false
	v := u.specExpr(st, e, env, &q)
	return v, q
}

func boolVal(s string) *Val { return &Val{T: types.Typ[types.Bool], S: s} }
func intVal(s string) *Val  { return &Val{T: types.Typ[types.Int], S: s} }

func (u *Unit) specExpr(st *State, e *SExpr, env *SpecEnv, q *bool) *Val {
	switch e.Op {
	case "bool":
		return boolVal(e.Name)
	case "int":
		n := e.Name
		if strings.HasPrefix(n, "0x") {
			i, _ := strconv.ParseInt(n[2:], 16, 64)
			n = fmt.Sprint(i)
		}
		return intVal(n)
	case "float":
		f, _ := strconv.ParseFloat(e.Name, 64)
		return &Val{T: types.Typ[types.Float64], S: fpLit(f, SF64)}
	case "str":
		u.d.strLits[e.Name] = true
		return &Val{T: types.Typ[types.String], S: strLit(e.Name)}
	case "nil":
		return &Val{T: types.Typ[types.UntypedNil], S: "0"}
	case "id":
		return u.specIdent(st, e.Name, env)
	case "old":
		if env.old == nil {
			u.eng.specError("%s: old() not available here", env.what)
			return u.specExpr(st, e.Args[0], env, q)
		}
		ne := env.child()
		ne.inOld = true
		if env.oldNames != nil {
			for k, v := range env.oldNames {
				ne.names[k] = v
			}
		}
		env.old.noFacts++
		defer func() { env.old.noFacts-- }()
		return u.specExpr(env.old, e.Args[0], ne, q)
	case "sel":
		// ghost(x).f
		if c := e.Args[0]; c.Op == "call" && c.Args[0].Op == "id" && c.Args[0].Name == "ghost" && len(c.Args) == 2 {
			x := u.specExpr(st, c.Args[1], env, q)
			gf, ok := u.eng.cs.GhostFields[e.Name]
			if !ok {
				u.eng.specError("%s: unknown ghost field %s", env.what, e.Name)
				return boolVal("true")
			}
			gp := u.eng.pkgByPath(gf.Pkg)
			if gp == nil {
				gp = env.pkg
			}
			t := u.resolveType(gp, gf.Type)
			h := u.heapGet(st, "G!"+e.Name, sortOf(t))
			gv := u.fromScalar(st, app("select", h, u.scalar(st, x)), t)
			if _, isMap := types.Unalias(t).Underlying().(*types.Map); isMap {
				u.eng.heapIsRef["G!"+e.Name] = true
			}
			if _, isMap := types.Unalias(t).Underlying().(*types.Map); isMap && !strings.Contains(gv.S, "!q") {
				// the heap is closed: a map-valued ghost field of an allocated object names an allocated map
				// (as for real reference fields, see loadField)
				st.assumeFact(tImp(app("<=", u.scalar(st, x), st.wm), app("<=", gv.S, st.wm)))
				st.assumeFact(app(">=", gv.S, "0")) // identities of ordinary maps are non-negative (embedded xsync.Map values live below zero)
			}
			return gv
		}
		// qualified constant pkg.Name
		if e.Args[0].Op == "id" {
			if _, bound := env.names[e.Args[0].Name]; !bound && u.lookupLocal(st, e.Args[0].Name, env) == nil {
				if p := u.eng.findImport(env.pkg, e.Args[0].Name); p != nil {
					if o := p.Scope().Lookup(e.Name); o != nil {
						if c, ok := o.(*types.Const); ok {
							return u.constVal(st, c.Val(), c.Type())
						}
						if vr, ok := o.(*types.Var); ok && isSentinel(vr) {
							return u.sentinel(st, vr)
						}
						if vr, ok := o.(*types.Var); ok {
							name := "V!" + p.Path() + "." + vr.Name()
							h := u.heapGet(st, name, sortOf(vr.Type()))
							return u.fromScalar(st, app("select", h, "0"), vr.Type())
						}
					}
				}
			}
		}
		x := u.specExpr(st, e.Args[0], env, q)
		return u.specField(st, x, e.Name, env)
	case "idx":
		x := u.specExpr(st, e.Args[0], env, q)
		i := u.specExpr(st, e.Args[1], env, q)
		switch t := types.Unalias(x.T).Underlying().(type) {
		case *types.Map:
			v, _ := u.mapLoad(st, x.T, x.S, u.scalar(st, i))
			return v
		case *types.Slice, *types.Array:
			return u.fromScalar(st, app("select", x.Arr, i.S), elemType(x.T))
		case *types.Basic:
			_ = t
			return &Val{T: types.Typ[types.Byte], S: app("str.to_code", app("str.at", x.S, i.S))}
		}
		u.eng.specError("%s: cannot index %s", env.what, e.Args[0])
		return intVal("0")
	case "slice":
		x := u.specExpr(st, e.Args[0], env, q)
		lo := "0"
		if e.Args[1] != nil {
			lo = u.specExpr(st, e.Args[1], env, q).S
		}
		if kindOf(x.T) == kString {
			hi := app("str.len", x.S)
			if e.Args[2] != nil {
				hi = u.specExpr(st, e.Args[2], env, q).S
			}
			return &Val{T: x.T, S: app("str.substr", x.S, lo, app("-", hi, lo))}
		}
		u.eng.specError("%s: slice expressions only on strings in specs", env.what)
		return x
	case "un":
		x := u.specExpr(st, e.Args[0], env, q)
		if e.Name == "!" {
			return boolVal(tNot(x.S))
		}
		if kindOf(x.T) == kFloat {
			return &Val{T: x.T, S: app("fp.neg", x.S)}
		}
		return &Val{T: x.T, S: app("-", x.S)}
	case "bin":
		return u.specBin(st, e, env, q)
	case "forall", "exists":
		*q = true
		ne := env.child()
		var binders []string
		for _, qv := range e.QVars {
			t := u.resolveType(env.pkg, qv.Type)
			bvCounter++
			nm := fmt.Sprintf("%s!q%d", qv.Name, bvCounter)
			ne.names[qv.Name] = &Val{T: t, S: nm}
			if kindOf(t) == kSlice || kindOf(t) == kStruct {
				// quantified composite: box id
				ne.names[qv.Name] = u.fromScalar(st, nm, t)
			}
			binders = append(binders, fmt.Sprintf("(%s %s)", nm, sortOf(t)))
		}
		body := u.specExpr(st, e.Args[0], ne, q)
		return boolVal(fmt.Sprintf("(%s (%s) %s)", e.Op, strings.Join(binders, " "), body.S))
	case "call":
		return u.specCall(st, e, env, q)
	}
	u.eng.specError("%s: unsupported spec expression %s", env.what, e)
	return boolVal("true")
}

func (u *Unit) lookupLocal(st *State, name string, env *SpecEnv) *Val {
	if env.scopePos == 0 || u.pkg == nil {
		return nil
	}
	sc := u.pkg.Types.Scope().Innermost(env.scopePos)
	if sc == nil {
		return nil
	}
	_, obj := sc.LookupParent(name, env.scopePos)
	if v, ok := obj.(*types.Var); ok {
		if r, esc := st.escaped[v]; esc {
			return u.loadStruct(st, r, types.NewPointer(v.Type()))
		}
		if val, ok := st.vars[v]; ok {
			return val
		}
	}
	return nil
}

func (u *Unit) specIdent(st *State, name string, env *SpecEnv) *Val {
	if v, ok := env.names[name]; ok {
		return v
	}
	if v := u.lookupLocal(st, name, env); v != nil {
		return v
	}
	// loop index pseudo-variables i$N
	if strings.HasPrefix(name, "i$") {
		n, _ := strconv.Atoi(name[2:])
		if t, ok := u.curLoopIdx[n]; ok {
			return intVal(t)
		}
	}
	if g, ok := st.gvars[name]; ok {
		return g
	}
	// package-level constant or variable of the contract's package
	if env.pkg != nil {
		if o := env.pkg.Types.Scope().Lookup(name); o != nil {
			switch c := o.(type) {
			case *types.Const:
				return u.constVal(st, c.Val(), c.Type())
			case *types.Var:
				if isSentinel(c) {
					return u.sentinel(st, c)
				}
				if v := u.constPkgVar(st, c); v != nil {
					return v
				}
				h := u.heapGet(st, "V!"+c.Pkg().Path()+"."+c.Name(), sortOf(c.Type()))
				return u.fromScalar(st, app("select", h, "0"), c.Type())
			}
		}
	}
	switch name {
	case "MaxInt64":
		return intVal("9223372036854775807")
	case "MinInt64":
		return intVal("(- 9223372036854775808)")
	case "MaxInt32":
		return intVal("2147483647")
	case "MinInt32":
		return intVal("(- 2147483648)")
	case "MaxUint64":
		return intVal("18446744073709551615")
	case "Second":
		return intVal("1000000000")
	case "Millisecond":
		return intVal("1000000")
	}
	u.eng.specError("%s: unknown identifier %q (contract stale?)", env.what, name)
	u.staleIdent = name
	return &Val{T: types.Typ[types.Int], S: u.d.fresh("stale."+name, SInt)}
}

func (u *Unit) specField(st *State, x *Val, name string, env *SpecEnv) *Val {
	if x.T == nil {
		u.eng.specError("%s: field %s of untyped value", env.what, name)
		return intVal("0")
	}
	if _, isPtr := types.Unalias(x.T).Underlying().(*types.Pointer); isPtr {
		if fieldType(x.T, name) == nil {
			u.eng.specError("%s: type %s has no field %s (contract stale?)", env.what, typeKey(x.T), name)
			u.staleIdent = name
			return intVal("0")
		}
		return u.loadField(st, x.S, x.T, name)
	}
	if kindOf(x.T) == kStruct {
		if fieldType(x.T, name) == nil {
			u.eng.specError("%s: type %s has no field %s (contract stale?)", env.what, typeKey(x.T), name)
			u.staleIdent = name
			return intVal("0")
		}
		return u.field(st, x, name)
	}
	u.eng.specError("%s: cannot select .%s on %s", env.what, name, types.TypeString(x.T, nil))
	return intVal("0")
}

func (u *Unit) specBin(st *State, e *SExpr, env *SpecEnv, q *bool) *Val {
	a := u.specExpr(st, e.Args[0], env, q)
	b := u.specExpr(st, e.Args[1], env, q)
	switch e.Name {
	case "&&":
		return boolVal(tAnd(a.S, b.S))
	case "||":
		return boolVal(tOr(a.S, b.S))
	case "==>":
		return boolVal(tImp(a.S, b.S))
	case "<==>":
		return boolVal(tEq(a.S, b.S))
	}
	opTok := map[string]token.Token{"==": token.EQL, "!=": token.NEQ, "<": token.LSS, "<=": token.LEQ, ">": token.GTR, ">=": token.GEQ}
	if t, ok := opTok[e.Name]; ok {
		// int literal against float: convert
		if kindOf(a.T) == kFloat && kindOf(b.T) != kFloat && isLitTerm(b.S) {
			f, _ := strconv.ParseFloat(b.S, 64)
			b = &Val{T: a.T, S: fpLit(f, sortOf(a.T))}
		} else if kindOf(b.T) == kFloat && kindOf(a.T) != kFloat && isLitTerm(a.S) {
			f, _ := strconv.ParseFloat(a.S, 64)
			a = &Val{T: b.T, S: fpLit(f, sortOf(b.T))}
		}
		if kindOf(a.T) == kFloat && kindOf(b.T) == kFloat && sortOf(a.T) != sortOf(b.T) {
			// literal typed float64 against float32 value
			if strings.HasPrefix(a.S, "(fp ") {
				a = u.refloat(a, b.T)
			} else if strings.HasPrefix(b.S, "(fp ") {
				b = u.refloat(b, a.T)
			}
		}
		// slice against slice (spec only): same contents, length and nil-ness
		if (kindOf(a.T) == kSlice || kindOf(a.T) == kArray) && (kindOf(b.T) == kSlice || kindOf(b.T) == kArray) && a.Arr != "" && b.Arr != "" && (e.Name == "==" || e.Name == "!=") {
			r := tAnd(tEq(a.Arr, b.Arr), tEq(a.Len, b.Len), tEq(a.Nil, b.Nil))
			if e.Name == "!=" {
				r = tNot(r)
			}
			return boolVal(r)
		}
		// nil against slice
		return u.compare(st, t, a, b, nil)
	}
	t := a.T
	if kindOf(t) == kRef || t == nil {
		t = b.T
	}
	if kindOf(a.T) == kString || kindOf(b.T) == kString {
		return &Val{T: types.Typ[types.String], S: app("str.++", a.S, b.S)}
	}
	if kindOf(t) == kFloat {
		m := map[string]string{"+": "fp.add", "-": "fp.sub", "*": "fp.mul", "/": "fp.div"}
		return &Val{T: t, S: app(m[e.Name], "RNE", a.S, b.S)}
	}
	// spec arithmetic is mathematical (no wrap-around)
	switch e.Name {
	case "+", "-", "*":
		return &Val{T: types.Typ[types.Int], S: app(e.Name, a.S, b.S)}
	case "/":
		return &Val{T: types.Typ[types.Int], S: app("div", a.S, b.S)}
	case "%":
		return &Val{T: types.Typ[types.Int], S: app("mod", a.S, b.S)}
	}
	u.eng.specError("%s: unsupported operator %s", env.what, e.Name)
	return boolVal("true")
}

func (u *Unit) refloat(lit *Val, to types.Type) *Val {
	// re-encode an fp literal in the other precision by decoding its bits
	var sgn, ex, man string
	fmt.Sscanf(strings.TrimSuffix(strings.TrimPrefix(lit.S, "(fp "), ")"), "#b%s #b%s #b%s", &sgn, &ex, &man)
	bits := sgn + ex + man
	var f float64
	if len(bits) == 64 {
		b, _ := strconv.ParseUint(bits, 2, 64)
		f = mathFloat64frombits(b)
	} else {
		b, _ := strconv.ParseUint(bits, 2, 32)
		f = float64(mathFloat32frombits(uint32(b)))
	}
	return &Val{T: to, S: fpLit(f, sortOf(to))}
}

func isLitTerm(s string) bool {
	if s == "" {
		return false
	}
	if s[0] == '(' && strings.HasPrefix(s, "(- ") {
		return isLit(strings.TrimSuffix(s[3:], ")"))
	}
	return isLit(s)
}

func (u *Unit) specCall(st *State, e *SExpr, env *SpecEnv, q *bool) *Val {
	fn := e.Args[0]
	args := e.Args[1:]
	if fn.Op != "id" {
		u.eng.specError("%s: only named spec functions can be called: %s", env.what, e)
		return boolVal("true")
	}
	ev := func(i int) *Val { return u.specExpr(st, args[i], env, q) }
	switch fn.Name {
	case "len":
		x := ev(0)
		switch kindOf(x.T) {
		case kString:
			return intVal(app("str.len", x.S))
		case kSlice, kArray:
			return intVal(x.Len)
		}
		if mt, ok := types.Unalias(x.T).Underlying().(*types.Map); ok {
			// len of a builtin map: the same uninterpreted cardinality the executable len uses
			ks := sortOf(mt.Key())
			c := u.d.fun("maplen!"+ks, []string{arrSort(ks, SBool)}, SInt)
			dom := u.mapDom(st, x.T, x.S)
			if !strings.Contains(dom, "!q") {
				// definitional facts of the cardinality for this (ground) map: non-negative, zero iff empty
				u.d.axiom(app(">=", app(c, dom), "0"))
				u.d.axiom(fmt.Sprintf("(= (= %s 0) (forall ((k %s)) (not (select %s k))))", app(c, dom), ks, dom))
			}
			return intVal(app(c, dom))
		}
		u.eng.specError("%s: len of %s", env.what, types.TypeString(x.T, nil))
		return intVal("0")
	case "isnil":
		x := ev(0)
		if kindOf(x.T) == kSlice {
			return boolVal(x.Nil)
		}
		return boolVal(tEq(x.S, "0"))
	case "has": // has(m, k): key in builtin map
		m, k := ev(0), ev(1)
		return boolVal(app("select", u.mapDom(st, m.T, m.S), u.scalar(st, k)))
	case "xhas", "xget": // xsync.Map as a mathematical map: xhas(m,k), xget(m,k)
		m, k := ev(0), ev(1)
		kt, vt, ok := xsyncMapTypes(m.T)
		if !ok {
			u.eng.specError("%s: %s on a non-xsync map", env.what, fn.Name)
			return boolVal("true")
		}
		ref := m.S
		if ref == "" {
			ref = u.scalar(st, m)
		}
		v, has := u.xmapLoad(st, kt, vt, ref, u.scalar(st, k))
		if fn.Name == "xhas" {
			return boolVal(has)
		}
		return v
	case "unwrap": // unwrap(e): the error wrapped by a fmt.Errorf("%w") value (nil if none)
		return &Val{T: types.Universe.Lookup("error").Type(), S: app(u.wrapsFn(), ev(0).S)}
	case "pathJoin":
		return &Val{T: types.Typ[types.String], S: app(u.d.fun("fn!path.Join2", []string{SStr, SStr}, SStr), ev(0).S, ev(1).S)}
	case "pathClean":
		return &Val{T: types.Typ[types.String], S: app(u.d.fun("fn!path.Clean", []string{SStr}, SStr), ev(0).S)}
	case "resolvePath":
		return &Val{T: types.Typ[types.String], S: app(u.d.fun("fn!url.resolvePath", []string{SStr, SStr}, SStr), ev(0).S, ev(1).S)}
	case "splitOf":
		return u.splitVal(st, ev(0).S, ev(1).S, types.NewSlice(types.Typ[types.String]))
	case "trimPrefix":
		a, b := ev(0), ev(1)
		return &Val{T: types.Typ[types.String], S: tIte(app("str.prefixof", b.S, a.S), app("str.substr", a.S, app("str.len", b.S), app("-", app("str.len", a.S), app("str.len", b.S))), a.S)}
	case "bytesContent": // bytesContent(b): abstract identity of a byte slice's content
		b := ev(0)
		f := u.d.fun("content!bytes", []string{arrSort(SInt, SInt), SInt}, SInt)
		return intVal(app(f, b.Arr, b.Len))
	case "joinOf": // joinOf(xs, sep): strings.Join(xs, sep)
		return &Val{T: types.Typ[types.String], S: u.joinTerm(ev(0), ev(1).S)}
	case "canonHeader":
		return &Val{T: types.Typ[types.String], S: u.canonHeader(ev(0).S)}
	case "fold":
		return &Val{T: types.Typ[types.String], S: u.foldStr(ev(0).S)}
	case "errText": // errText(e): e.Error()
		return &Val{T: types.Typ[types.String], S: app(u.errTextFn(), ev(0).S)}
	case "lower": // lower(s): strings.ToLower(s) (uninterpreted, with distribution facts from the fmt.Errorf model)
		lf := u.d.fun("fn!strings.ToLower", []string{SStr}, SStr)
		return &Val{T: types.Typ[types.String], S: app(lf, ev(0).S)}
	case "errorsIs": // errorsIs(e, target): the same uninterpreted relation the code model of errors.Is uses
		a, b := ev(0), ev(1)
		uf := u.d.fun("fn!errors.Is", []string{SInt, SInt}, SBool)
		return boolVal(app(uf, a.S, b.S))
	case "errorsAs": // errorsAs(e, "net.Error")
		a := ev(0)
		uf := u.d.fun("fn!errors.As!"+u.asTypeName(env, args[1].Name), []string{SInt}, SBool)
		return boolVal(app(uf, a.S))
	case "mk": // mk("T", f1, f2, ...): the struct value of named type T with the given fields in declaration order
		t := u.resolveType(env.pkg, args[0].Name)
		sd := structOf(t)
		if sd == nil || sd.NumFields() != len(args)-1 {
			u.eng.specError("%s: mk(%s) needs one argument per field", env.what, args[0].Name)
			return boolVal("true")
		}
		v := &Val{T: t, Fields: map[string]*Val{}}
		for i := 0; i < sd.NumFields(); i++ {
			v.Fields[sd.Field(i).Name()] = ev(i + 1)
		}
		return v
	case "errorsAsVal":
		a := ev(0)
		uf := u.d.fun("fn!errors.AsVal!"+u.asTypeName(env, args[1].Name), []string{SInt}, SInt)
		return &Val{T: u.resolveType(env.pkg, args[1].Name), S: app(uf, a.S)}
	case "purecall": // purecall("(net.Error).Timeout", "bool", args...): result 0 of a functional pure library call
		var sorts, terms []string
		for i := 2; i < len(args); i++ {
			v := ev(i)
			sorts = append(sorts, sortOf(v.T))
			terms = append(terms, u.scalar(st, v))
		}
		rt := u.resolveType(env.pkg, args[1].Name)
		fname, idx := args[0].Name, "0"
		if i := strings.LastIndex(fname, "#"); i >= 0 {
			fname, idx = fname[:i], fname[i+1:]
		}
		f := u.d.fun("pure!"+fname+"!"+idx, sorts, sortOf(rt))
		return u.fromScalar(st, app(f, terms...), rt)
	case "fieldSame": // fieldSame(p, "f"): the heap cell p.f holds what it held at function entry (for slice-typed fields:
		// the very same slice value, which is what the frame check asks for)
		x := ev(0)
		if env.old == nil || args[1].Op != "str" {
			u.eng.specError("%s: fieldSame(p, \"field\") needs a pre-state and a field name", env.what)
			return boolVal("true")
		}
		ft := fieldType(x.T, args[1].Name)
		if ft == nil {
			u.eng.specError("%s: type %s has no field %s (contract stale?)", env.what, typeKey(x.T), args[1].Name)
			return boolVal("true")
		}
		hn := heapName(x.T, args[1].Name)
		return boolVal(tEq(app("select", u.heapGet(st, hn, sortOf(ft)), x.S), app("select", u.heapGet(env.old, hn, sortOf(ft)), x.S)))
	case "reflLen": // reflLen(x): length of the slice held in the interface value x (what reflect.ValueOf(x).Len() returns)
		u.reflDecls()
		return intVal(app(u.d.fun("refl.len", []string{SInt}, SInt), ev(0).S))
	case "reflIndex": // reflIndex(x, i): element i of the slice held in x, as an interface value
		u.reflDecls()
		return &Val{T: types.NewInterfaceType(nil, nil), S: app(u.d.fun("refl.index", []string{SInt, SInt}, SInt), ev(0).S, ev(1).S)}
	case "fnapp": // fnapp(f, args...): what the function value f returns for these arguments (see `pureparam` / `pureresult`)
		f := ev(0)
		sig, ok := types.Unalias(f.T).Underlying().(*types.Signature)
		if !ok || sig.Results().Len() != 1 {
			u.eng.specError("%s: fnapp needs a function value with one result", env.what)
			return boolVal("true")
		}
		var as []*Val
		for i := 1; i < len(args); i++ {
			a := ev(i)
			if i-1 < sig.Params().Len() && isIface(sig.Params().At(i-1).Type()) {
				a = u.boxIface(st, a)
			}
			as = append(as, a)
		}
		return u.fnappVal(st, f, as, sig.Results().At(0).Type())
	case "loopentry": // loopentry(e): the value of e when the loop was first reached (loop invariants only)
		if env.loopEntry == nil {
			u.eng.specError("%s: loopentry() is only available in loop invariants", env.what)
			return ev(0)
		}
		ne := env.child()
		ne.loopEntry = nil
		env.loopEntry.noFacts++
		defer func() { env.loopEntry.noFacts-- }()
		return u.specExpr(env.loopEntry, args[0], ne, q)
	case "seen": // inside range-map loop invariants: key already visited
		k := ev(0)
		return boolVal(app("select", u.curLoopSeen[env.loopN], u.scalar(st, k)))
	case "hasPrefix":
		return boolVal(app("str.prefixof", ev(1).S, ev(0).S))
	case "hasSuffix":
		return boolVal(app("str.suffixof", ev(1).S, ev(0).S))
	case "contains":
		return boolVal(app("str.contains", ev(0).S, ev(1).S))
	case "concat":
		return &Val{T: types.Typ[types.String], S: app("str.++", ev(0).S, ev(1).S)}
	case "typeis": // typeis(x, "T"): dynamic type tag test with the Go type string
		x := ev(0)
		name := args[1].Name
		if strings.HasPrefix(name, "map[") || strings.HasPrefix(name, "[]") || strings.HasPrefix(name, "*") || strings.Contains(name, ".") {
			// composite type literals are normalised through the type checker's own spelling
			name = types.TypeString(types.Unalias(u.resolveType(env.pkg, name)), nil)
		}
		return boolVal(tAnd(app("distinct", x.S, "0"), tEq(app(u.typeofFn(), x.S), u.d.constant("tag!"+name, SInt))))
	case "deref": // deref(p): the value a (non-nil) pointer points to
		return u.loadThrough(st, ev(0))
	case "asType": // asType(x, "T"): the value of dynamic type T held by the interface value x
		x := ev(0)
		t := u.resolveType(env.pkg, args[1].Name)
		if kindOf(t) == kRef && !isIface(t) {
			// references (pointers, maps) are stored in an interface as themselves
			return &Val{T: t, S: x.S}
		}
		return u.fromScalar(st, app(u.unboxFn(sortOf(t)), x.S), t)
	case "asString":
		x := ev(0)
		return &Val{T: types.Typ[types.String], S: app(u.unboxFn(SStr), x.S)}
	case "asBool":
		return boolVal(app(u.unboxFn(SBool), ev(0).S))
	case "asFloat":
		return &Val{T: types.Typ[types.Float64], S: app(u.unboxFn(SF64), ev(0).S)}
	case "asInt":
		return intVal(app(u.unboxFn(SInt), ev(0).S))
	case "isNaN":
		return boolVal(app("fp.isNaN", ev(0).S))
	case "isInf":
		return boolVal(app("fp.isInfinite", ev(0).S))
	case "min":
		a, b := ev(0), ev(1)
		return &Val{T: a.T, S: tIte(app("<=", a.S, b.S), a.S, b.S)}
	case "max":
		a, b := ev(0), ev(1)
		return &Val{T: a.T, S: tIte(app(">=", a.S, b.S), a.S, b.S)}
	case "ite":
		c, a, b := ev(0), ev(1), ev(2)
		return &Val{T: a.T, S: tIte(c.S, u.scalar(st, a), u.scalar(st, b))}
	case "held": // held(mu expression as string path)
		key := args[0].String()
		if m, ok := st.held[key]; ok && m != "" {
			return boolVal("true")
		}
		return boolVal("false")
	case "otherMapsUnchanged", "mapsUnchanged": // mapsUnchanged(m) / otherMapsUnchanged(m): every map of m's type that existed at function entry has its entry contents
		m := ev(0)
		if env.old == nil {
			return boolVal("true")
		}
		mt, ok := types.Unalias(m.T).Underlying().(*types.Map)
		if !ok {
			u.eng.specError("%s: mapsUnchanged needs a map", env.what)
			return boolVal("true")
		}
		dom, val, ks, vs := u.mapNames(mt)
		bvCounter++
		r := fmt.Sprintf("mu!%d", bvCounter)
		*q = true
		cd, od := u.heapGet(st, dom, arrSort(ks, SBool)), u.heapGet(env.old, dom, arrSort(ks, SBool))
		cv, ov := u.heapGet(st, val, arrSort(ks, vs)), u.heapGet(env.old, val, arrSort(ks, vs))
		cond := app("<=", r, env.old.wm)
		if fn.Name == "otherMapsUnchanged" {
			cond = tAnd(cond, app("distinct", r, m.S))
		}
		return boolVal(fmt.Sprintf("(forall ((%s Int)) (=> %s (and (= (select %s %s) (select %s %s)) (= (select %s %s) (select %s %s)))))", r, cond, cd, r, od, r, cv, r, ov, r))
	case "counter": // counter(c): current value of an *xsync.Counter
		return intVal(ev(0).S)
	case "sameSlice": // sameSlice(a, b): same contents and length
		a, b := ev(0), ev(1)
		return boolVal(tAnd(tEq(a.Arr, b.Arr), tEq(a.Len, b.Len)))
	case "allocated": // allocated(p): p refers to an object that exists in the current state
		x := ev(0)
		return boolVal(app("<=", x.S, st.wm))
	case "fresh": // fresh(p): allocated during this call
		x := ev(0)
		if env.old != nil {
			return boolVal(app(">", x.S, env.old.wm))
		}
		return boolVal("false")
	}
	sf, ok := u.eng.cs.Specs[fn.Name]
	if !ok {
		u.eng.specError("%s: unknown spec function %s", env.what, fn.Name)
		return boolVal("true")
	}
	if len(args) != len(sf.Params) {
		u.eng.specError("%s: %s expects %d arguments", env.what, fn.Name, len(sf.Params))
		return boolVal("true")
	}
	sfPkg := u.eng.pkgByPath(sf.Pkg)
	if sfPkg == nil {
		sfPkg = env.pkg
	}
	if sf.Body == nil {
		// uninterpreted
		var sorts, terms []string
		for i, p := range sf.Params {
			t := u.resolveType(sfPkg, p.Type)
			sorts = append(sorts, sortOf(t))
			terms = append(terms, u.scalar(st, ev(i)))
		}
		rt := u.resolveType(sfPkg, sf.Ret)
		f := u.d.fun("spec!"+sf.Name, sorts, sortOf(rt))
		return u.fromScalar(st, app(f, terms...), rt)
	}
	// macro expansion
	ne := &SpecEnv{names: map[string]*Val{}, old: env.old, oldNames: nil, pkg: sfPkg, what: env.what + "/" + sf.Name, loopN: env.loopN}
	for i, p := range sf.Params {
		v := ev(i)
		t := u.resolveType(sfPkg, p.Type)
		nv := *v
		if nv.T == nil || kindOf(nv.T) == kRef && kindOf(t) != kRef || (nv.T == types.Typ[types.UntypedNil]) || isUntypedLit(v) {
			nv.T = t
		}
		ne.names[p.Name] = &nv
	}
	u.specDepth++
	defer func() { u.specDepth-- }()
	if u.specDepth > 20 {
		u.eng.specError("%s: spec function recursion too deep (%s)", env.what, sf.Name)
		return boolVal("true")
	}
	return u.specExpr(st, sf.Body, ne, q)
}

func isUntypedLit(v *Val) bool {
	return v.T == types.Typ[types.Int] && isLitTerm(v.S)
}

func (e *Engine) pkgByPath(p string) *packages.Package {
	if x, ok := e.pkgs[p]; ok {
		return x
	}
	return e.allPkgs[p]
}

var _ = constant.MakeBool

func mathFloat64frombits(b uint64) float64 { return math.Float64frombits(b) }
func mathFloat32frombits(b uint32) float32 { return math.Float32frombits(b) }

// specEnvLocal: environment for loop invariants: Go locals by scope at the loop body, old() = function entry.
func (u *Unit) specEnvLocal(st *State, scopePos token.Pos, loopN int) *SpecEnv {
	names := map[string]*Val{}
	if u.recvName != "" {
		if v, ok := u.entryParams[u.recvName]; ok {
			names["self"] = v
		}
	}
	return &SpecEnv{names: names, oldNames: u.entryParams, old: st.old, pkg: u.pkg, scopePos: scopePos, loopN: loopN, loopEntry: st.loopEntry[loopN], what: fmt.Sprintf("%s loop %d invariant", u.name, loopN)}
}

// asTypeName: the canonical name of an errors.As target type (the code model uses types.TypeString).
func (u *Unit) asTypeName(env *SpecEnv, name string) string {
	return types.TypeString(u.resolveType(env.pkg, name), nil)
}
