package main

// Symbolic values, states and the mapping from Go types to SMT sorts.

import (
	"fmt"
	"net/textproto"
	"go/types"
	"math"
	"sort"
	"strings"
)

type Val struct {
	T      types.Type
	S      string          // scalar term, or box id for composite values
	Fields map[string]*Val // unboxed struct
	Arr    string          // unboxed slice: (Array Int elemSort)
	Len    string
	Nil    string // slice nil-ness (Bool term)
	Tuple  []*Val
}

func (v *Val) isUnboxedSlice() bool { return v.Arr != "" }

type deferred struct {
	call func(st *State) []*State
}

type State struct {
	vars   map[types.Object]*Val
	heap   map[string]string // heap/ghost array name -> current term
	pc     []string
	pcSet  map[string]bool
	guard  []string
	wm     string
	defers []deferred
	held   map[string]string // lock key -> "w"/"r"
	ctl    string            // "", break, continue, return, end, panic
	label  string
	rets   []*Val
	retSite int
	old    *State
	trace  []string
	gvars  map[string]*Val // ghost globals
	loopSeen map[int]string // range-map loops: visited-set array term
	noFacts int
	epoch string
	atomicOps []string
	plainOps []string
	leftLoop bool // dry-run marker: this state does not flow back to the loop head
	objHavocT []types.Type // static types of the havocked objects (parallel to objHavoc)
	objHavoc []string // objects whose every field was havocked (modifies `object x`): applies to field arrays touched later too
	escaped map[types.Object]string // struct-typed locals whose address was taken: they live in the heap at this reference
	panicking bool // this state is a panic unwinding through the deferred calls (recover() stops it)
	loopEntry map[int]*State // per loop ordinal: the state in which the loop was first reached
	entryLen int  // number of path-condition conjuncts that describe the entry state (requires, repinv, axioms)
}

func (st *State) clone() *State {
	n := &State{epoch: st.epoch, wm: st.wm, ctl: st.ctl, label: st.label, rets: st.rets, retSite: st.retSite, old: st.old, entryLen: st.entryLen, panicking: st.panicking}
	n.vars = make(map[types.Object]*Val, len(st.vars))
	for k, v := range st.vars {
		n.vars[k] = v
	}
	n.heap = make(map[string]string, len(st.heap))
	for k, v := range st.heap {
		n.heap[k] = v
	}
	n.pc = append([]string(nil), st.pc...)
	n.pcSet = make(map[string]bool, len(st.pcSet))
	for k := range st.pcSet {
		n.pcSet[k] = true
	}
	n.guard = append([]string(nil), st.guard...)
	n.defers = append([]deferred(nil), st.defers...)
	n.held = make(map[string]string, len(st.held))
	for k, v := range st.held {
		n.held[k] = v
	}
	n.gvars = make(map[string]*Val, len(st.gvars))
	for k, v := range st.gvars {
		n.gvars[k] = v
	}
	n.loopSeen = make(map[int]string, len(st.loopSeen))
	for k, v := range st.loopSeen {
		n.loopSeen[k] = v
	}
	if len(st.loopEntry) > 0 {
		n.loopEntry = make(map[int]*State, len(st.loopEntry))
		for k, v := range st.loopEntry {
			n.loopEntry[k] = v
		}
	}
	n.objHavoc = append([]string(nil), st.objHavoc...)
	n.objHavocT = append([]types.Type(nil), st.objHavocT...)
	if len(st.escaped) > 0 {
		n.escaped = make(map[types.Object]string, len(st.escaped))
		for k, v := range st.escaped {
			n.escaped[k] = v
		}
	}
	n.trace = append([]string(nil), st.trace...)
	n.atomicOps = append([]string(nil), st.atomicOps...)
	n.plainOps = append([]string(nil), st.plainOps...)
	return n
}

func (st *State) assume(t string) {
	if t == "true" || t == "" {
		return
	}
	g := tAnd(st.guard...)
	t = tImp(g, t)
	if st.pcSet[t] {
		return
	}
	st.pcSet[t] = true
	st.pc = append(st.pc, t)
}

// assumeFact adds a fact that holds regardless of the current guard (type ranges, definitions).
func (st *State) assumeFact(t string) {
	if st.noFacts > 0 {
		return
	}
	if t == "true" || t == "" || st.pcSet[t] {
		return
	}
	st.pcSet[t] = true
	st.pc = append(st.pc, t)
}

func (st *State) hyp() string {
	return tAnd(append(append([]string{}, st.pc...), st.guard...)...)
}

// ---------------------------------------------------------------------------
// type classification

type tkind int

const (
	kInt tkind = iota
	kUint
	kBool
	kString
	kFloat
	kRef // pointer, interface, map, chan, func, unsafe.Pointer
	kTime
	kStruct
	kSlice
	kArray
	kUnit // sync primitives, struct{}: no data
	kTuple
	kAtomic // sync/atomic.Int32 etc: scalar Int
)

func namedPath(t types.Type) string {
	if n, ok := t.(*types.Named); ok {
		if n.Obj().Pkg() != nil {
			return n.Obj().Pkg().Path() + "." + n.Obj().Name()
		}
		return n.Obj().Name()
	}
	if a, ok := t.(*types.Alias); ok {
		return namedPath(types.Unalias(a))
	}
	return ""
}

func kindOf(t types.Type) tkind {
	if t == nil {
		return kRef
	}
	t = types.Unalias(t)
	switch namedPath(t) {
	case "time.Time":
		return kTime
	case "sync.Mutex", "sync.RWMutex", "sync.Once", "sync.WaitGroup", "sync.Pool", "sync.Map", "sync/atomic.noCopy", "sync/atomic.align64":
		return kUnit
	case "sync/atomic.Int32", "sync/atomic.Int64", "sync/atomic.Uint32", "sync/atomic.Uint64":
		return kAtomic
	case "sync/atomic.Bool":
		return kBool
	case "sync/atomic.Value":
		return kRef
	}
	if isXCounter(t) {
		return kAtomic
	}
	if tp, ok := t.(*types.TypeParam); ok {
		_ = tp
		return kRef
	}
	switch u := t.Underlying().(type) {
	case *types.Basic:
		switch {
		case u.Info()&types.IsBoolean != 0:
			return kBool
		case u.Info()&types.IsString != 0:
			return kString
		case u.Info()&types.IsFloat != 0:
			return kFloat
		case u.Info()&types.IsUnsigned != 0:
			return kUint
		case u.Info()&types.IsInteger != 0:
			return kInt
		case u.Kind() == types.UnsafePointer || u.Kind() == types.UntypedNil:
			return kRef
		}
		return kRef
	case *types.Pointer, *types.Interface, *types.Map, *types.Chan, *types.Signature:
		return kRef
	case *types.Struct:
		if u.NumFields() == 0 {
			return kUnit
		}
		return kStruct
	case *types.Slice:
		return kSlice
	case *types.Array:
		return kArray
	case *types.Tuple:
		return kTuple
	}
	return kRef
}

// sortOf gives the scalar SMT sort used for a value of type t inside containers.
// valueStructs: named struct types used as map keys somewhere in the module whose fields are all strings, integers or
// booleans. They are modelled as SMT datatypes (constructor mk.T, one selector per field), so that two keys with
// equal fields are the same key. Filled once at load time.
var valueStructs = map[string]*types.Named{}

func isValueStruct(t types.Type) bool {
	if t == nil {
		return false
	}
	n, ok := types.Unalias(t).(*types.Named)
	if !ok {
		return false
	}
	_, ok = valueStructs[typeKey(n)]
	return ok
}

func vsName(t types.Type) string {
	r := strings.NewReplacer("/", ".", "-", "_", "*", "")
	return r.Replace(typeKey(t))
}
func vsSort(t types.Type) string          { return "VS." + vsName(t) }
func vsCtor(t types.Type) string          { return "mk." + vsName(t) }
func vsSel(t types.Type, f string) string { return "sel." + vsName(t) + "." + f }

func vsDecl(n *types.Named) string {
	s := n.Underlying().(*types.Struct)
	var fs []string
	for i := 0; i < s.NumFields(); i++ {
		fs = append(fs, fmt.Sprintf("(%s %s)", vsSel(n, s.Field(i).Name()), sortOf(s.Field(i).Type())))
	}
	return fmt.Sprintf("(declare-datatypes ((%s 0)) (((%s %s))))", vsSort(n), vsCtor(n), strings.Join(fs, " "))
}

// registerValueStruct is called for every map key type found while loading.
func registerValueStruct(t types.Type) {
	n, ok := types.Unalias(t).(*types.Named)
	if !ok {
		return
	}
	s, ok := n.Underlying().(*types.Struct)
	if !ok || s.NumFields() == 0 || s.NumFields() > 6 || n.TypeArgs().Len() > 0 {
		return
	}
	for i := 0; i < s.NumFields(); i++ {
		switch kindOf(s.Field(i).Type()) {
		case kString, kInt, kUint, kBool:
		default:
			return
		}
	}
	valueStructs[typeKey(n)] = n
}

func sortOf(t types.Type) string {
	if len(valueStructs) > 0 && isValueStruct(t) {
		return vsSort(t)
	}
	switch kindOf(t) {
	case kInt, kUint, kRef, kTime, kStruct, kSlice, kArray, kUnit, kAtomic, kTuple:
		return SInt
	case kBool:
		return SBool
	case kString:
		return SStr
	case kFloat:
		if b, ok := types.Unalias(t).Underlying().(*types.Basic); ok && b.Kind() == types.Float32 {
			return SF32
		}
		return SF64
	}
	return SInt
}

// isXCounter: *xsync.Counter. A counter stored in a struct field is modelled as an integer owned by that field
// (counters are created once per field with NewCounter and never shared: trusted).
func isXCounter(t types.Type) bool {
	p, ok := types.Unalias(t).(*types.Pointer)
	if !ok {
		return false
	}
	n, ok := types.Unalias(p.Elem()).(*types.Named)
	return ok && n.Obj().Pkg() != nil && strings.HasSuffix(n.Obj().Pkg().Path(), "xsync/v4") && n.Obj().Name() == "Counter"
}

func intRange(t types.Type) (lo, hi string, ok bool) {
	b, isb := types.Unalias(t).Underlying().(*types.Basic)
	if !isb {
		if isXCounter(t) {
			return "(- 9223372036854775808)", "9223372036854775807", true
		}
		if kindOf(t) == kAtomic {
			switch namedPath(t) {
			case "sync/atomic.Int32":
				return "(- 2147483648)", "2147483647", true
			case "sync/atomic.Int64":
				return "(- 9223372036854775808)", "9223372036854775807", true
			case "sync/atomic.Uint32":
				return "0", "4294967295", true
			case "sync/atomic.Uint64":
				return "0", "18446744073709551615", true
			}
		}
		return "", "", false
	}
	switch b.Kind() {
	case types.Int, types.Int64:
		return "(- 9223372036854775808)", "9223372036854775807", true
	case types.Int32:
		return "(- 2147483648)", "2147483647", true
	case types.Int16:
		return "(- 32768)", "32767", true
	case types.Int8:
		return "(- 128)", "127", true
	case types.Uint, types.Uint64, types.Uintptr:
		return "0", "18446744073709551615", true
	case types.Uint32:
		return "0", "4294967295", true
	case types.Uint16:
		return "0", "65535", true
	case types.Uint8:
		return "0", "255", true
	}
	return "", "", false
}

func uintModulus(t types.Type) string {
	b, ok := types.Unalias(t).Underlying().(*types.Basic)
	if !ok {
		return ""
	}
	switch b.Kind() {
	case types.Uint, types.Uint64, types.Uintptr:
		return "18446744073709551616"
	case types.Uint32:
		return "4294967296"
	case types.Uint16:
		return "65536"
	case types.Uint8:
		return "256"
	}
	return ""
}

func fpLit(f float64, sort string) string {
	if sort == SF32 {
		b := math.Float32bits(float32(f))
		return fmt.Sprintf("(fp #b%01b #b%08b #b%023b)", b>>31, (b>>23)&0xff, b&0x7fffff)
	}
	b := math.Float64bits(f)
	return fmt.Sprintf("(fp #b%01b #b%011b #b%052b)", b>>63, (b>>52)&0x7ff, b&0xfffffffffffff)
}

// ---------------------------------------------------------------------------
// declarations

type Decls struct {
	list []string
	set  map[string]string // name -> sort/sig
	n    int
	funs []string // define-funs (spec functions), emitted after declarations
	funSet map[string]bool
	axioms []string
	strLits map[string]bool // string literals seen in code and contracts of this unit
	entryHeaps map[string]string // heap array name -> entry-state constant
	isRef map[string]bool
}

func newDecls() *Decls {
	return &Decls{set: map[string]string{}, funSet: map[string]bool{}, strLits: map[string]bool{}, entryHeaps: map[string]string{}}
}

func (d *Decls) constant(name, sort string) string {
	q := quoteSym(name)
	if _, ok := d.set[q]; !ok {
		d.set[q] = sort
		d.list = append(d.list, fmt.Sprintf("(declare-const %s %s)", q, sort))
	}
	return q
}

func (d *Decls) fresh(prefix, sort string) string {
	d.n++
	return d.constant(fmt.Sprintf("%s!%d", prefix, d.n), sort)
}

func (d *Decls) fun(name string, args []string, ret string) string {
	q := quoteSym(name)
	if _, ok := d.set[q]; !ok {
		d.set[q] = "fun"
		d.list = append(d.list, fmt.Sprintf("(declare-fun %s (%s) %s)", q, strings.Join(args, " "), ret))
	}
	return q
}

// axiom adds a closed fact that holds in every state of the unit (table contents, sentinel properties).
func (d *Decls) axiom(t string) {
	a := "(assert " + t + ")"
	if d.funSet[a] {
		return
	}
	d.funSet[a] = true
	d.axioms = append(d.axioms, a)
}

// heapAxioms: well-formed entry heap -- every reference stored in an object field points to an existing object.
func (d *Decls) heapAxioms() string {
	var b strings.Builder
	var names []string
	for n := range d.entryHeaps {
		names = append(names, n)
	}
	sort.Strings(names)
	for _, n := range names {
		if d.isRef != nil && d.isRef[n] {
			c := d.entryHeaps[n]
			b.WriteString(fmt.Sprintf("(assert (forall ((r Int)) (! (=> (<= r |wm@0|) (and (<= (select %s r) |wm@0|) (>= (select %s r) 0))) :pattern ((select %s r)))))\n", c, c, c))
		}
		if d.isRef != nil && d.isRef["neg:"+n] {
			// identities of xsync.Map values embedded in structs live below zero
			c := d.entryHeaps[n]
			b.WriteString(fmt.Sprintf("(assert (forall ((r Int)) (! (< (select %s r) 0) :pattern ((select %s r)))))\n", c, c))
		}
	}
	return b.String()
}

// litAxioms: the uninterpreted string functions agree with govc's own evaluation on every literal of the unit.
func (d *Decls) litAxioms() string {
	var b strings.Builder
	canonName := quoteSym("fn!net/http.CanonicalHeaderKey")
	_, hasCanon := d.set[canonName]
	_, hasFold := d.set["fn!fold"]
	_, hasLower := d.set["fn!strings.ToLower"]
	if !hasCanon && !hasFold && !hasLower {
		return ""
	}
	var lits []string
	for l := range d.strLits {
		lits = append(lits, l)
	}
	sort.Strings(lits)
	for _, l := range lits {
		if !isASCII(l) {
			continue
		}
		if hasCanon {
			b.WriteString(fmt.Sprintf("(assert (= (%s %s) %s))\n", canonName, strLit(l), strLit(textproto.CanonicalMIMEHeaderKey(l))))
		}
		if hasFold {
			b.WriteString(fmt.Sprintf("(assert (= (fn!fold %s) %s))\n", strLit(l), strLit(strings.ToLower(l))))
		}
		if hasLower {
			b.WriteString(fmt.Sprintf("(assert (= (fn!strings.ToLower %s) %s))\n", strLit(l), strLit(strings.ToLower(l))))
		}
	}
	return b.String()
}

func (d *Decls) text() string {
	body := strings.Join(d.list, "\n") + "\n" + strings.Join(d.funs, "\n") + "\n" + strings.Join(d.axioms, "\n") + "\n"
	return d.datatypes(body) + body
}

// datatypes declares the value-struct sorts that the given text mentions.
func (d *Decls) datatypes(body string) string {
	var keys []string
	for k := range valueStructs {
		keys = append(keys, k)
	}
	sort.Strings(keys)
	out := ""
	for _, k := range keys {
		out += vsDecl(valueStructs[k]) + "\n"
	}
	return out
}

// ---------------------------------------------------------------------------
// value helpers bound to a unit (needs decls)

func typeKey(t types.Type) string {
	t = types.Unalias(t)
	if p, ok := t.(*types.Pointer); ok {
		return typeKey(p.Elem())
	}
	if n := namedPath(t); n != "" {
		return n
	}
	return types.TypeString(t, nil)
}

func structOf(t types.Type) *types.Struct {
	if t == nil {
		return nil
	}
	t = types.Unalias(t)
	if p, ok := t.Underlying().(*types.Pointer); ok {
		t = p.Elem()
	}
	s, _ := types.Unalias(t).Underlying().(*types.Struct)
	return s
}

func fieldType(t types.Type, name string) types.Type {
	s := structOf(t)
	if s == nil {
		return nil
	}
	for i := 0; i < s.NumFields(); i++ {
		if s.Field(i).Name() == name {
			return s.Field(i).Type()
		}
	}
	// promoted through embedded fields
	for i := 0; i < s.NumFields(); i++ {
		if s.Field(i).Embedded() {
			if ft := fieldType(s.Field(i).Type(), name); ft != nil {
				return ft
			}
		}
	}
	return nil
}

func elemType(t types.Type) types.Type {
	if t == nil {
		return nil
	}
	switch u := types.Unalias(t).Underlying().(type) {
	case *types.Slice:
		return u.Elem()
	case *types.Array:
		return u.Elem()
	case *types.Pointer:
		return elemType(u.Elem())
	case *types.Map:
		return u.Elem()
	case *types.Basic:
		if u.Info()&types.IsString != 0 {
			return types.Typ[types.Byte]
		}
	}
	return nil
}

func sortedKeys(m map[string]string) []string {
	ks := make([]string, 0, len(m))
	for k := range m {
		ks = append(ks, k)
	}
	sort.Strings(ks)
	return ks
}

// errAxioms: for every error value e created by fmt.Errorf/errors.New in this unit (constants err!N):
// errors.Is(e,t) <=> e==t or errors.Is(wraps(e),t); errors.As(e,T) <=> errors.As(wraps(e),T) for the network types.
func (d *Decls) errAxioms() string {
	var b strings.Builder
	_, hasWraps := d.set["errwraps"]
	_, hasIs := d.set["fn!errors.Is"]
	var asFns []string
	for name := range d.set {
		n := strings.Trim(name, "|")
		if strings.HasPrefix(n, "fn!errors.As!") {
			asFns = append(asFns, name)
		}
	}
	sort.Strings(asFns)
	if hasIs {
		b.WriteString("(assert (forall ((e Int)) (! (fn!errors.Is e e) :pattern ((fn!errors.Is e e)))))\n")
		// errors.Is(nil, t) only for t == nil
		b.WriteString("(assert (forall ((t Int)) (! (= (fn!errors.Is 0 t) (= t 0)) :pattern ((fn!errors.Is 0 t)))))\n")
	}
	for _, f := range asFns {
		// errors.As(nil, &target) is false
		b.WriteString(fmt.Sprintf("(assert (not (%s 0)))\n", f))
	}
	// package-level sentinel errors of the standard library (context.Canceled, io.EOF, ...): they wrap nothing, so
	// errors.Is(s, t) holds only for t == s, and they are never instances of a type declared in this repository
	var sents []string
	for name := range d.set {
		n := strings.Trim(name, "|")
		if strings.HasPrefix(n, "sentinel!") {
			// sentinel!<package path>.<Name>: standard-library packages have no dot in the first path segment
			full := strings.TrimPrefix(n, "sentinel!")
			pkgPath := full
			if k := strings.LastIndex(full, "."); k >= 0 {
				pkgPath = full[:k]
			}
			if !strings.Contains(strings.SplitN(pkgPath, "/", 2)[0], ".") {
				sents = append(sents, name)
			}
		}
	}
	sort.Strings(sents)
	for _, sn := range sents {
		if hasIs {
			b.WriteString(fmt.Sprintf("(assert (forall ((t Int)) (! (= (fn!errors.Is %s t) (= %s t)) :pattern ((fn!errors.Is %s t)))))\n", sn, sn, sn))
		}
		for _, f := range asFns {
			if strings.Contains(f, "fn!errors.As!*github.com/thushan/olla/") {
				b.WriteString(fmt.Sprintf("(assert (not (%s %s)))\n", f, sn))
			}
		}
	}
	if !hasWraps {
		return b.String()
	}
	// errors created by fmt.Errorf / errors.New in this unit: errors.Is / errors.As go through the wrapped error only
	var errs []string
	for name := range d.set {
		if strings.HasPrefix(name, "err!") {
			errs = append(errs, name)
		}
	}
	sort.Strings(errs)
	for _, e := range errs {
		if hasIs {
			b.WriteString(fmt.Sprintf("(assert (forall ((t Int)) (! (= (fn!errors.Is %s t) (or (= %s t) (and (distinct (errwraps %s) 0) (fn!errors.Is (errwraps %s) t)))) :pattern ((fn!errors.Is %s t)))))\n", e, e, e, e, e))
		}
		for _, f := range asFns {
			vf := strings.Replace(f, "fn!errors.As!", "fn!errors.AsVal!", 1)
			b.WriteString(fmt.Sprintf("(assert (= (%s %s) (and (distinct (errwraps %s) 0) (%s (errwraps %s)))))\n", f, e, e, f, e))
			if _, ok := d.set[vf]; ok {
				b.WriteString(fmt.Sprintf("(assert (=> (%s %s) (= (%s %s) (%s (errwraps %s)))))\n", f, e, vf, e, vf, e))
			}
		}
	}
	return b.String()
}
