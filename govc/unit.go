package main

// Verification units: one real function (or function literal) of /repo under contract.

import (
	"sync"
	"os"
	"runtime/debug"
	"fmt"
	"go/ast"
	"go/constant"
	"go/token"
	"go/types"
	"sort"
	"strings"

	"golang.org/x/tools/go/packages"
)

type OblInst struct {
	Focus   []string // optional reduced hypothesis set (entry facts + cut assertions); tried first, any proof from it is sound
	HypList []string
	Hyp   string
	Goal  string
	Trace []string
}

type Obl struct {
	Name   string
	Kind   string // ensures requires inv.init inv.preserve safety frame cover vacuity lemma ...
	Unit   string
	Props  []string
	Text   string
	Insts  []*OblInst
	Cover  bool // expects sat
	D      *Decls
	Result SolverResult
	Quant  bool
	Stale  string // non-empty: failed without a solver (contract-stale etc.)
	Bounded string // non-empty: result is bounded (unroll k), never counted as proved
	Pos    string
	Replay *replaySpec
	PreInsts []*OblInst // covers: the states before the assumption under test was added
}

type Unit struct {
	eng    *Engine
	pkg    *packages.Package
	info   *types.Info
	name   string // e.g. balancer.RoundRobinSelector.Select
	key    string // pkgpath.Recv.Name
	ftype  *ast.FuncType
	recv   *ast.FieldList
	body   *ast.BlockStmt
	sig    *types.Signature
	ct     *Contract
	d      *Decls
	obls   map[string]*Obl
	order  []string
	retOrd map[*ast.ReturnStmt]int
	loopOrd map[ast.Stmt]int
	callOrd map[*ast.CallExpr]int
	litOrd map[*ast.FuncLit]int
	nRet   int
	lits   map[string]*ast.FuncLit // closure id term -> literal
	litEnv map[string]*State
	paths  int
	quiet  int // >0: dry run, no obligations recorded
	safety bool
	nopanic bool
	notes  map[string]bool
	trusted map[string]bool // trusted things used
	usedContracts map[string]bool
	resultVars []*types.Var
	entryParams map[string]*Val
	recvName string
	fnPos  token.Pos
	bounded string
	curLoopIdx map[int]string
	captured map[types.Object]bool
	pathCap int
	safetySites map[string]map[token.Pos]int
	allPos []token.Pos
	ptrs map[string]ast.Expr
	overflow bool
	tooManyPaths bool
	outside string
	sliceWrites bool
	inlineDepth int
	loopsSeen map[int]bool
	curLoopSeen map[int]string
	loopExitIdx map[int]string
	staleIdent string
	specDepth int
	outerDecl *ast.FuncDecl
	epochN int
	inAtomic int
	replay *replaySpec
	storeLog map[string][2]string // named heap version -> (previous version, index term)
	allocN map[string]int // alloc constant -> serial
	allocSerial int
	freshOnly map[string]bool
	fixedIdx map[string][]string
	refines *Contract
	refSig *types.Signature
	refNames map[string]*Val
	callAssertSeen map[int]bool
	sentinels map[string]bool
	plainErrs []string
	panicSnaps []*State
	nRecovered int // exits by a recovered panic (checked as returns 901, 902, …)
	panicSites []string
	usesErrIs bool
	functional bool
	havocLog map[string]havocEnt
	nextFocus []string
}

// nonFunctional records a violation of the `functional` flag on the current path.
func (u *Unit) nonFunctional(st *State, why string) {
	if !u.functional || u.quiet > 0 {
		return
	}
	u.oblige(st, "functional", "functional", "result depends only on the arguments (no state access, deterministic callees)", "false", false)
	st.trace = append(st.trace, "not functional: "+why)
}

const maxPaths = 6000

func (u *Unit) note(s string) {
	if pat := os.Getenv("GOVC_TRACE_NOTE"); pat != "" && strings.Contains(s, pat) && !u.notes[s] {
		fmt.Fprintf(os.Stderr, "NOTE %s\n%s\n", s, debug.Stack())
	}
	u.notes[s] = true
}

func (u *Unit) oblige(st *State, name, kind, text, goal string, quant bool) {
	if u.quiet > 0 {
		return
	}
	full := u.name + "#" + name
	o := u.obls[full]
	if o == nil {
		o = &Obl{Name: full, Kind: kind, Unit: u.name, Text: text, D: u.d, Props: u.props(), Bounded: u.bounded, Replay: u.replay}
		u.obls[full] = o
		u.order = append(u.order, full)
	}
	if quant {
		o.Quant = true
	}
	if goal == "true" {
		// trivially valid instance: still record so the obligation exists
		if len(o.Insts) == 0 {
			o.Insts = append(o.Insts, &OblInst{Hyp: "false", Goal: "true"})
		}
		return
	}
	in := &OblInst{Hyp: st.hyp(), HypList: append(append([]string{}, st.pc...), st.guard...), Goal: goal, Trace: append([]string(nil), st.trace...)}
	if u.nextFocus != nil {
		in.Focus = u.nextFocus
		u.nextFocus = nil
	}
	o.Insts = append(o.Insts, in)
}

func (u *Unit) cover(st *State, name, text string) {
	if u.quiet > 0 {
		return
	}
	full := u.name + "#" + name
	o := u.obls[full]
	if o == nil {
		o = &Obl{Name: full, Kind: "cover", Unit: u.name, Text: text, D: u.d, Props: u.props(), Cover: true}
		u.obls[full] = o
		u.order = append(u.order, full)
	}
	o.Insts = append(o.Insts, &OblInst{Hyp: st.hyp(), HypList: append(append([]string{}, st.pc...), st.guard...), Goal: "false"})
}

func (u *Unit) coverWithPre(st, pre *State, name, text string) {
	if u.quiet > 0 {
		return
	}
	u.cover(st, name, text)
	full := u.name + "#" + name
	if o := u.obls[full]; o != nil {
		o.PreInsts = append(o.PreInsts, &OblInst{Hyp: pre.hyp(), Goal: "false"})
	}
}

func (u *Unit) stale(name, why string) {
	full := u.name + "#" + name
	if u.obls[full] != nil {
		return
	}
	o := &Obl{Name: full, Kind: "contract-stale", Unit: u.name, Text: why, D: u.d, Props: u.props(), Stale: why}
	u.obls[full] = o
	u.order = append(u.order, full)
}

func (u *Unit) props() []string {
	if u.ct != nil {
		return u.ct.Props
	}
	return nil
}

// ---------------------------------------------------------------------------
// ordinals (source order, never line numbers)

func (u *Unit) computeOrdinals() {
	u.retOrd = map[*ast.ReturnStmt]int{}
	u.loopOrd = map[ast.Stmt]int{}
	u.callOrd = map[*ast.CallExpr]int{}
	u.litOrd = map[*ast.FuncLit]int{}
	nl, nr, nf := 0, 0, 0
	calls := map[string]int{}
	var walk func(n ast.Node, top bool)
	walk = func(root ast.Node, top bool) {
		ast.Inspect(root, func(n ast.Node) bool {
			switch x := n.(type) {
			case *ast.FuncLit:
				if x == root {
					return true
				}
				nf++
				u.litOrd[x] = nf
				// loops/returns inside literals that are inlined get ordinals too (shared numbering)
				return true
			case *ast.ReturnStmt:
				nr++
				u.retOrd[x] = nr
			case *ast.ForStmt:
				nl++
				u.loopOrd[x] = nl
			case *ast.RangeStmt:
				nl++
				u.loopOrd[x] = nl
			case *ast.CallExpr:
				nm := calleeShortName(x)
				calls[nm]++
				u.callOrd[x] = calls[nm]
			}
			return true
		})
	}
	walk(u.body, true)
	u.nRet = nr
}

func calleeShortName(c *ast.CallExpr) string {
	switch f := c.Fun.(type) {
	case *ast.Ident:
		return f.Name
	case *ast.SelectorExpr:
		return f.Sel.Name
	case *ast.IndexExpr:
		if s, ok := f.X.(*ast.SelectorExpr); ok {
			return s.Sel.Name
		}
		if s, ok := f.X.(*ast.Ident); ok {
			return s.Name
		}
	}
	return "fn"
}

// ---------------------------------------------------------------------------
// fresh values

func (u *Unit) freshVal(st *State, t types.Type, hint string) *Val {
	v := &Val{T: t}
	switch kindOf(t) {
	case kStruct:
		v.S = u.d.fresh(hint, SInt) // boxed; fields through accessors
	case kSlice, kArray:
		v.Arr = u.d.fresh(hint+".arr", arrSort(SInt, sortOf(elemType(t))))
		v.Len = u.d.fresh(hint+".len", SInt)
		st.assumeFact(app(">=", v.Len, "0"))
		st.assumeFact(app("<=", v.Len, "4611686018427387904"))
		if a, ok := types.Unalias(t).Underlying().(*types.Array); ok {
			st.assumeFact(tEq(v.Len, intLit(a.Len())))
			v.Nil = "false"
		} else {
			v.Nil = u.d.fresh(hint+".nil", SBool)
			st.assumeFact(tImp(v.Nil, tEq(v.Len, "0")))
		}
	case kTuple:
		tp := t.(*types.Tuple)
		for i := 0; i < tp.Len(); i++ {
			v.Tuple = append(v.Tuple, u.freshVal(st, tp.At(i).Type(), fmt.Sprintf("%s.%d", hint, i)))
		}
	case kUnit:
		v.S = "0"
	default:
		v.S = u.d.fresh(hint, sortOf(t))
		u.assumeRange(st, v.S, t)
	}
	return v
}

func (u *Unit) assumeRange(st *State, term string, t types.Type) {
	switch kindOf(t) {
	case kInt, kUint, kAtomic:
		if lo, hi, ok := intRange(t); ok {
			st.assumeFact(app("<=", lo, term))
			st.assumeFact(app("<=", term, hi))
		}
	case kRef:
		st.assumeFact(app(">=", term, "0"))
	}
}

func (u *Unit) zeroVal(st *State, t types.Type) *Val {
	v := &Val{T: t}
	switch kindOf(t) {
	case kInt, kUint, kRef, kTime, kUnit, kAtomic:
		v.S = "0"
	case kBool:
		v.S = "false"
	case kString:
		v.S = `""`
	case kFloat:
		v.S = fpLit(0, sortOf(t))
	case kStruct:
		v.Fields = map[string]*Val{}
		s := structOf(t)
		for i := 0; i < s.NumFields(); i++ {
			v.Fields[s.Field(i).Name()] = u.zeroVal(st, s.Field(i).Type())
		}
	case kSlice:
		v.Arr = u.d.constant("emptyarr."+sortOf(elemType(t)), arrSort(SInt, sortOf(elemType(t))))
		v.Len = "0"
		v.Nil = "true"
	case kArray:
		a := types.Unalias(t).Underlying().(*types.Array)
		ze := u.scalar(st, u.zeroVal(st, a.Elem()))
		v.Arr = fmt.Sprintf("((as const %s) %s)", arrSort(SInt, sortOf(a.Elem())), ze)
		v.Len = intLit(a.Len())
		v.Nil = "false"
	case kTuple:
		tp := t.(*types.Tuple)
		for i := 0; i < tp.Len(); i++ {
			v.Tuple = append(v.Tuple, u.zeroVal(st, tp.At(i).Type()))
		}
	}
	return v
}

// scalar returns the single SMT term representing v (boxing composites).
func (u *Unit) scalar(st *State, v *Val) string {
	if v == nil {
		return "0"
	}
	switch kindOf(v.T) {
	case kStruct:
		if v.S != "" {
			return v.S
		}
		if id, ok := u.valueBox(st, v); ok {
			return id
		}
		id := u.d.fresh("box", SInt)
		s := structOf(v.T)
		for i := 0; i < s.NumFields(); i++ {
			f := s.Field(i)
			fv := v.Fields[f.Name()]
			if fv == nil {
				continue
			}
			st.assumeFact(tEq(app(u.accessor(v.T, f.Name(), f.Type()), id), u.scalar(st, fv)))
		}
		return id
	case kSlice, kArray:
		if v.S != "" && v.Arr == "" {
			return v.S
		}
		if v.Len == "0" && v.Nil == "true" && strings.HasPrefix(strings.Trim(v.Arr, "|"), "emptyarr.") {
			// the nil slice has one canonical box per element sort
			es := sortOf(elemType(v.T))
			c := u.d.constant("nilslice!"+es, SInt)
			u.d.axiom(tEq(app(u.slArr(es), c), v.Arr))
			u.d.axiom(tEq(app(u.slLen(), c), "0"))
			u.d.axiom(app(u.slNil(), c))
			return c
		}
		id := u.d.fresh("slbox", SInt)
		es := sortOf(elemType(v.T))
		st.assumeFact(tEq(app(u.slArr(es), id), v.Arr))
		st.assumeFact(tEq(app(u.slLen(), id), v.Len))
		st.assumeFact(tEq(app(u.slNil(), id), v.Nil))
		return id
	case kTuple:
		return "0"
	}
	if v.S == "" {
		return "0"
	}
	return v.S
}

// valueBox: the datatype constructor term of a value struct (see valueStructs).
func (u *Unit) valueBox(st *State, v *Val) (string, bool) {
	if !isValueStruct(v.T) {
		return "", false
	}
	s := structOf(v.T)
	var args []string
	for i := 0; i < s.NumFields(); i++ {
		f := s.Field(i)
		fv := v.Fields[f.Name()]
		if fv == nil {
			fv = u.zeroVal(st, f.Type())
		}
		args = append(args, u.scalar(st, fv))
	}
	u.trusted["model: struct types used as map keys are values determined by their fields (SMT datatypes)"] = true
	return app(vsCtor(v.T), args...), true
}

func (u *Unit) accessor(t types.Type, field string, ft types.Type) string {
	if isValueStruct(t) {
		return vsSel(t, field)
	}
	return u.d.fun("F!"+typeKey(t)+"."+field, []string{SInt}, sortOf(ft))
}
func (u *Unit) slArr(es string) string {
	return u.d.fun("sl.arr!"+es, []string{SInt}, arrSort(SInt, es))
}
func (u *Unit) slLen() string { return u.d.fun("sl.len", []string{SInt}, SInt) }
func (u *Unit) slNil() string { return u.d.fun("sl.nil", []string{SInt}, SBool) }

// fromScalar wraps a scalar term of the container sort back into a Val of type t.
func (u *Unit) fromScalar(st *State, term string, t types.Type) *Val {
	v := &Val{T: t, S: term}
	switch kindOf(t) {
	case kSlice, kArray:
		es := sortOf(elemType(t))
		v.Arr = app(u.slArr(es), term)
		v.Len = app(u.slLen(), term)
		v.Nil = app(u.slNil(), term)
		v.S = ""
		if at, isArr := types.Unalias(t).Underlying().(*types.Array); isArr {
			// a Go array has its declared length and is never nil
			v.Len = intLit(at.Len())
			v.Nil = "false"
			return v
		}
		st.assumeFact(app(">=", v.Len, "0"))
		st.assumeFact(tImp(v.Nil, tEq(v.Len, "0")))
	case kInt, kUint, kAtomic, kRef:
		u.assumeRange(st, term, t)
	}
	return v
}

// field of a struct VALUE (not pointer).
func (u *Unit) field(st *State, v *Val, name string) *Val {
	if v.Fields != nil {
		if f, ok := v.Fields[name]; ok {
			return f
		}
	}
	ft := fieldType(v.T, name)
	if ft == nil {
		u.note("unknown field " + name + " of " + typeKey(v.T))
		return u.freshVal(st, types.Typ[types.Int], "unk")
	}
	if v.S == "" {
		// unboxed without the field: zero
		return u.zeroVal(st, ft)
	}
	return u.fromScalar(st, app(u.accessor(v.T, name, ft), v.S), ft)
}

func (u *Unit) setField(st *State, v *Val, name string, nv *Val) *Val {
	s := structOf(v.T)
	out := &Val{T: v.T, Fields: map[string]*Val{}}
	for i := 0; i < s.NumFields(); i++ {
		f := s.Field(i)
		if f.Name() == name {
			out.Fields[name] = nv
		} else {
			out.Fields[f.Name()] = u.field(st, v, f.Name())
		}
	}
	return out
}

// ---------------------------------------------------------------------------
// heap

// heapOwner remembers, per field array, the struct type it belongs to (used to decide which arrays an object of a
// given static type can own).
var heapOwner = map[string]types.Type{}
var heapOwnerMu sync.Mutex

func heapName(t types.Type, field string) string {
	n := "H!" + typeKey(t) + "." + field
	heapOwnerMu.Lock()
	if _, ok := heapOwner[n]; !ok {
		tt := types.Unalias(t)
		if p, isPtr := tt.Underlying().(*types.Pointer); isPtr {
			tt = types.Unalias(p.Elem())
		}
		heapOwner[n] = tt
	}
	heapOwnerMu.Unlock()
	return n
}

// methodMayWrite: can a method of the owning type write the field this array holds?
func (e *Engine) methodMayWrite(name string) bool {
	heapOwnerMu.Lock()
	owner := heapOwner[name]
	heapOwnerMu.Unlock()
	if owner == nil {
		return true
	}
	w := e.methodWrites(owner)
	if w == nil {
		return true
	}
	i := strings.LastIndex(name, ".")
	return w[name[i+1:]]
}

// mayOwn: can an object whose static type is st (a pointer to a struct, or an interface) own the field array n?
func mayOwn(n string, static types.Type) bool {
	heapOwnerMu.Lock()
	owner := heapOwner[n]
	heapOwnerMu.Unlock()
	if owner == nil || static == nil {
		return true
	}
	s := types.Unalias(static)
	if p, ok := s.Underlying().(*types.Pointer); ok {
		return types.Identical(types.Unalias(p.Elem()), owner)
	}
	if it, ok := s.Underlying().(*types.Interface); ok {
		if it.NumMethods() == 0 {
			return true
		}
		return types.Implements(types.NewPointer(owner), it) || types.Implements(owner, it)
	}
	return true
}

func (u *Unit) heapDefault(st *State, name, valSort string) string {
	if u.eng.heapSorts[name] == "" {
		u.eng.heapSorts[name] = valSort
	}
	ep := st.epoch
	if ep == "" {
		ep = "0"
	}
	c := u.d.constant(name+"@"+ep, arrSort(SInt, u.eng.heapSorts[name]))
	if ep == "0" {
		u.d.entryHeaps[name] = c
		u.d.isRef = u.eng.heapIsRef
	}
	return c
}

func (u *Unit) heapGet(st *State, name, valSort string) string {
	if u.functional {
		u.nonFunctional(st, "accesses "+name)
	}
	if t, ok := st.heap[name]; ok {
		return t
	}
	d := u.heapDefault(st, name, valSort)
	if len(st.objHavoc) > 0 && strings.HasPrefix(name, "H!") {
		// a field array first touched after `modifies object x`: x's cell is arbitrary here too
		touched := false
		for i, r := range st.objHavoc {
			if mayOwn(name, st.objHavocT[i]) && (!isIface(st.objHavocT[i]) || u.eng.methodMayWrite(name)) {
				d = app("store", d, r, u.d.fresh("objhavoc", u.eng.heapSorts[name]))
				touched = true
			}
		}
		if touched {
			st.heap[name] = d
		}
	}
	return d
}

// havocObject: every field of the object at ref becomes arbitrary (modifies `object x`: the callee may call back into
// methods of a value whose dynamic type it does not know).
func (u *Unit) havocObject(st *State, ref string, static types.Type) {
	var names []string
	for n := range st.heap {
		if strings.HasPrefix(n, "H!") && mayOwn(n, static) && (!isIface(static) || u.eng.methodMayWrite(n)) {
			names = append(names, n)
		}
	}
	sort.Strings(names)
	for _, n := range names {
		srt := u.eng.heapSorts[n]
		if srt == "" {
			continue
		}
		h := u.heapGet(st, n, srt)
		u.heapSet(st, n, srt, app("store", h, ref, u.d.fresh("objhavoc", srt)))
	}
	st.objHavoc = append(st.objHavoc, ref)
	st.objHavocT = append(st.objHavocT, static)
}

func (u *Unit) heapSet(st *State, name, valSort, term string) {
	cur := u.heapGet(st, name, valSort)
	// a store at one index (possibly conditional on the current guard) is logged for the loop-frame inference
	storeIdx := ""
	if pre := "(store " + cur + " "; strings.HasPrefix(term, pre) {
		storeIdx = firstSexpr(term[len(pre):])
	}
	g := tAnd(st.guard...)
	if g != "true" {
		term = tIte(g, term, cur)
	}
	// name the new heap to keep terms small
	c := u.d.fresh(name, arrSort(SInt, valSort))
	st.assumeFact(tEq(c, term))
	st.heap[name] = c
	if storeIdx != "" {
		if u.storeLog == nil {
			u.storeLog = map[string][2]string{}
		}
		u.storeLog[c] = [2]string{cur, storeIdx}
	}
}

func (u *Unit) heapHavoc(st *State, name string) {
	srt := u.eng.heapSorts[name]
	if srt == "" {
		return
	}
	cur := u.heapGet(st, name, srt)
	c := u.d.fresh(name, arrSort(SInt, srt))
	g := tAnd(st.guard...)
	if g != "true" {
		c2 := u.d.fresh(name, arrSort(SInt, srt))
		st.assumeFact(tEq(c2, tIte(g, c, cur)))
		c = c2
	}
	st.heap[name] = c
}

func (u *Unit) havocAllHeap(st *State, why string) {
	g := tAnd(st.guard...)
	if g != "true" {
		// conditional havoc: every known array individually
		names := map[string]bool{}
		for n := range st.heap {
			names[n] = true
		}
		for n := range u.eng.heapSorts {
			names[n] = true
		}
		var ns []string
		for n := range names {
			ns = append(ns, n)
		}
		sort.Strings(ns)
		for _, n := range ns {
			u.heapHavoc(st, n)
		}
	} else {
		// unconditional: forget everything; untouched arrays get a new default version
		u.epochN++
		st.epoch = fmt.Sprintf("e%d", u.epochN)
		st.heap = map[string]string{}
		st.objHavoc, st.objHavocT = nil, nil
	}
	st.wm = u.bumpWM(st)
	st.trace = append(st.trace, "havoc heap: "+why)
}

func (u *Unit) bumpWM(st *State) string {
	n := u.d.fresh("wm", SInt)
	st.assumeFact(app(">=", n, st.wm))
	return n
}

func (u *Unit) loadField(st *State, ref string, t types.Type, name string) *Val {
	ft := fieldType(t, name)
	if ft == nil {
		u.note("unknown field " + name + " of " + typeKey(t))
		return u.freshVal(st, types.Typ[types.Int], "unk")
	}
	if kindOf(ft) == kUnit {
		return &Val{T: ft, S: "0"}
	}
	if kindOf(ft) == kRef {
		u.eng.heapIsRef[heapName(t, name)] = true
	}
	if _, _, isX := xsyncMapTypes(ft); isX && kindOf(ft) == kStruct {
		u.eng.heapIsRef["neg:"+heapName(t, name)] = true
	}
	h := u.heapGet(st, heapName(t, name), sortOf(ft))
	v := u.fromScalar(st, app("select", h, ref), ft)
	if kindOf(ft) == kRef {
		st.assumeFact(app("<=", v.S, st.wm))
	}
	if _, _, isX := xsyncMapTypes(ft); isX && kindOf(ft) == kStruct {
		// an xsync.Map embedded by value: its identity (box id) lives below zero, apart from every allocated map
		st.assumeFact(app("<", v.S, "0"))
	}
	return v
}

func (u *Unit) storeField(st *State, ref string, t types.Type, name string, v *Val) {
	ft := fieldType(t, name)
	if ft == nil || kindOf(ft) == kUnit {
		return
	}
	hn := heapName(t, name)
	if kindOf(ft) == kRef {
		u.eng.heapIsRef[hn] = true
	}
	h := u.heapGet(st, hn, sortOf(ft))
	u.heapSet(st, hn, sortOf(ft), app("store", h, ref, u.scalar(st, v)))
}

// loadStruct reads a whole struct value through a pointer.
func (u *Unit) loadStruct(st *State, ref string, t types.Type) *Val {
	s := structOf(t)
	out := &Val{T: derefType(t), Fields: map[string]*Val{}}
	for i := 0; i < s.NumFields(); i++ {
		f := s.Field(i)
		out.Fields[f.Name()] = u.loadField(st, ref, t, f.Name())
	}
	return out
}

func (u *Unit) storeStruct(st *State, ref string, t types.Type, v *Val) {
	s := structOf(t)
	for i := 0; i < s.NumFields(); i++ {
		f := s.Field(i)
		u.storeField(st, ref, t, f.Name(), u.field(st, v, f.Name()))
	}
}

func derefType(t types.Type) types.Type {
	if p, ok := types.Unalias(t).Underlying().(*types.Pointer); ok {
		return p.Elem()
	}
	return t
}

func firstSexpr(s string) string {
	if s == "" {
		return ""
	}
	if s[0] != '(' {
		if i := strings.IndexAny(s, " )"); i >= 0 {
			return s[:i]
		}
		return s
	}
	d := 0
	for i := 0; i < len(s); i++ {
		if s[i] == '(' {
			d++
		} else if s[i] == ')' {
			d--
			if d == 0 {
				return s[:i+1]
			}
		}
	}
	return s
}

func (u *Unit) alloc(st *State) string {
	r := u.d.fresh("new", SInt)
	if u.allocN == nil {
		u.allocN = map[string]int{}
	}
	u.allocSerial++
	u.allocN[r] = u.allocSerial
	st.assumeFact(tEq(r, app("+", st.wm, "1")))
	st.wm = r
	return r
}

// ---------------------------------------------------------------------------
// maps (builtin): ref -> (dom, val)

func (u *Unit) mapNames(t types.Type) (dom, val, ks, vs string) {
	m := types.Unalias(t).Underlying().(*types.Map)
	ks, vs = sortOf(m.Key()), sortOf(m.Elem())
	key := "M!" + ks + "!" + vs
	return key + ".dom", key + ".val", ks, vs
}

func (u *Unit) mapDom(st *State, t types.Type, ref string) string {
	dom, _, ks, _ := u.mapNames(t)
	h := u.heapGet(st, dom, arrSort(ks, SBool))
	if ref == "0" {
		return fmt.Sprintf("((as const %s) false)", arrSort(ks, SBool))
	}
	// the nil map has no keys
	return tIte(tEq(ref, "0"), fmt.Sprintf("((as const %s) false)", arrSort(ks, SBool)), app("select", h, ref))
}

func (u *Unit) mapVal(st *State, t types.Type, ref string) string {
	_, val, ks, vs := u.mapNames(t)
	h := u.heapGet(st, val, arrSort(ks, vs))
	return app("select", h, ref)
}

func (u *Unit) mapLoad(st *State, t types.Type, ref, key string) (*Val, string) {
	m := types.Unalias(t).Underlying().(*types.Map)
	ok := app("select", u.mapDom(st, t, ref), key)
	raw := app("select", u.mapVal(st, t, ref), key)
	zero := u.scalar(st, u.zeroVal(st, m.Elem()))
	if (kindOf(m.Elem()) == kRef || isIface(m.Elem())) && !strings.Contains(ref+key, "!q") {
		// the heap is closed: what an existing map holds (a reference, or an interface value and so possibly one)
		// exists too. Stated per read, not as an axiom over the value array: arrays are shared by sort, and an
		// int-valued map of the same sorts must not be constrained.
		st.assumeFact(tImp(app("<=", ref, st.wm), app("<=", raw, st.wm)))
	}
	return u.fromScalar(st, tIte(ok, raw, zero), m.Elem()), ok
}

func (u *Unit) mapStore(st *State, t types.Type, ref, key string, v *Val) {
	dom, val, ks, vs := u.mapNames(t)
	hd := u.heapGet(st, dom, arrSort(ks, SBool))
	hv := u.heapGet(st, val, arrSort(ks, vs))
	u.heapSet(st, dom, arrSort(ks, SBool), app("store", hd, ref, app("store", app("select", hd, ref), key, "true")))
	u.heapSet(st, val, arrSort(ks, vs), app("store", hv, ref, app("store", app("select", hv, ref), key, u.scalar(st, v))))
}

func (u *Unit) mapDelete(st *State, t types.Type, ref, key string) {
	dom, _, ks, _ := u.mapNames(t)
	hd := u.heapGet(st, dom, arrSort(ks, SBool))
	u.heapSet(st, dom, arrSort(ks, SBool), app("store", hd, ref, app("store", app("select", hd, ref), key, "false")))
}

func (u *Unit) mapNew(st *State, t types.Type) string {
	dom, _, ks, _ := u.mapNames(t)
	r := u.alloc(st)
	hd := u.heapGet(st, dom, arrSort(ks, SBool))
	u.heapSet(st, dom, arrSort(ks, SBool), app("store", hd, r, fmt.Sprintf("((as const %s) false)", arrSort(ks, SBool))))
	return r
}

// ---------------------------------------------------------------------------

type Engine struct {
	pkgs      map[string]*packages.Package
	fset      *token.FileSet
	cs        *ContractSet
	heapSorts map[string]string
	outDir    string
	smtDir    string // this run's query files
	noRetry   map[string]bool // obligations recorded as known findings: a timeout there is the expected answer
	timeoutS  int
	seed      int
	tier      string
	units     []*Unit
	funcDecls map[string]*ast.FuncDecl // key pkgpath.Recv.Name
	funcPkg   map[string]*packages.Package
	allPkgs   map[string]*packages.Package
	tagNames  map[string]bool
	timeT     types.Type
	contractFiles []string
	pkgVarCache map[*types.Var][]constant.Value
	pkgVarDone map[*types.Var]bool
	heapIsRef map[string]bool
}

func (e *Engine) indexFuncs() {
	e.funcDecls = map[string]*ast.FuncDecl{}
	e.funcPkg = map[string]*packages.Package{}
	for _, p := range e.pkgs {
		for _, f := range p.Syntax {
			fn := e.fset.Position(f.Pos()).Filename
			if strings.HasSuffix(fn, "_test.go") {
				continue
			}
			for _, d := range f.Decls {
				fd, ok := d.(*ast.FuncDecl)
				if !ok || fd.Body == nil {
					continue
				}
				key := fd.Name.Name
				if fd.Recv != nil && len(fd.Recv.List) > 0 {
					key = recvTypeName(fd.Recv.List[0].Type) + "." + key
				}
				e.funcDecls[p.PkgPath+"."+key] = fd
				e.funcPkg[p.PkgPath+"."+key] = p
			}
		}
	}
}

// methodWrites: the fields of the struct type with the given type key that some method of the type may write (assignment
// through the receiver, inc/dec, address taken, or a method call on a struct-valued field). A callee that only holds the
// object as an interface value can change nothing else. nil = unknown (type declared outside the loaded syntax).
var methodWritesCache = map[string]map[string]bool{}

func (e *Engine) methodWrites(owner types.Type) map[string]bool {
	n, ok := types.Unalias(owner).(*types.Named)
	if !ok || n.Obj().Pkg() == nil {
		return nil
	}
	key := typeKey(n)
	heapOwnerMu.Lock()
	defer heapOwnerMu.Unlock()
	if m, done := methodWritesCache[key]; done {
		return m
	}
	p := e.pkgs[n.Obj().Pkg().Path()]
	if p == nil {
		methodWritesCache[key] = nil
		return nil
	}
	res := map[string]bool{}
	prefix := p.PkgPath + "." + n.Obj().Name() + "."
	for k, fd := range e.funcDecls {
		if !strings.HasPrefix(k, prefix) || fd.Recv == nil || len(fd.Recv.List) == 0 || len(fd.Recv.List[0].Names) == 0 {
			continue
		}
		recv := fd.Recv.List[0].Names[0].Name
		// root field of an lvalue-like expression rooted at the receiver
		var rootField func(x ast.Expr) string
		rootField = func(x ast.Expr) string {
			switch v := ast.Unparen(x).(type) {
			case *ast.SelectorExpr:
				if id, ok := ast.Unparen(v.X).(*ast.Ident); ok && id.Name == recv {
					return v.Sel.Name
				}
				return rootField(v.X)
			case *ast.IndexExpr:
				return rootField(v.X)
			case *ast.StarExpr:
				return rootField(v.X)
			}
			return ""
		}
		ast.Inspect(fd.Body, func(nd ast.Node) bool {
			switch v := nd.(type) {
			case *ast.AssignStmt:
				for _, l := range v.Lhs {
					if f := rootField(l); f != "" {
						res[f] = true
					}
				}
			case *ast.IncDecStmt:
				if f := rootField(v.X); f != "" {
					res[f] = true
				}
			case *ast.UnaryExpr:
				if v.Op == token.AND {
					if f := rootField(v.X); f != "" {
						res[f] = true
					}
				}
			case *ast.CallExpr:
				// recv.f.M(...): a method on a struct-valued field may write that field
				if se, ok := ast.Unparen(v.Fun).(*ast.SelectorExpr); ok {
					if f := rootField(se.X); f != "" {
						if ft := fieldType(n, f); ft != nil && kindOf(ft) != kRef {
							res[f] = true
						}
					}
				}
			}
			return true
		})
	}
	methodWritesCache[key] = res
	return res
}

func recvTypeName(e ast.Expr) string {
	switch x := e.(type) {
	case *ast.StarExpr:
		return recvTypeName(x.X)
	case *ast.Ident:
		return x.Name
	case *ast.IndexExpr:
		return recvTypeName(x.X)
	case *ast.IndexListExpr:
		return recvTypeName(x.X)
	}
	return "?"
}

func shortPkg(path string) string {
	if i := strings.LastIndex(path, "/"); i >= 0 {
		return path[i+1:]
	}
	return path
}

// funcKey returns the contract-table key of a *types.Func.
func funcKey(f *types.Func) string {
	f = f.Origin()
	sig := f.Type().(*types.Signature)
	pkg := ""
	if f.Pkg() != nil {
		pkg = f.Pkg().Path()
	}
	if r := sig.Recv(); r != nil {
		rt := types.Unalias(r.Type())
		if p, ok := rt.(*types.Pointer); ok {
			rt = types.Unalias(p.Elem())
		}
		if n, ok := rt.(*types.Named); ok {
			if n.Obj().Pkg() != nil {
				pkg = n.Obj().Pkg().Path()
			}
			return pkg + "." + n.Obj().Name() + "." + f.Name()
		}
		return pkg + ".?." + f.Name()
	}
	return pkg + "." + f.Name()
}

func sortedNotes(m map[string]bool) []string {
	var out []string
	for k := range m {
		out = append(out, k)
	}
	sort.Strings(out)
	return out
}

func (u *Unit) pos(n ast.Node) string {
	p := u.eng.fset.Position(n.Pos())
	return fmt.Sprintf("%s:%d", strings.TrimPrefix(p.Filename, "/repo/"), p.Line)
}

// pkgVarInit returns the constant elements of a package-level slice variable's initialiser, or nil if the
// variable is not an immutable constant table.
func (e *Engine) pkgVarInit(o *types.Var) []constant.Value {
	if e.pkgVarCache == nil {
		e.pkgVarCache = map[*types.Var][]constant.Value{}
		e.pkgVarDone = map[*types.Var]bool{}
	}
	if e.pkgVarDone[o] {
		return e.pkgVarCache[o]
	}
	e.pkgVarDone[o] = true
	p := e.allPkgs[o.Pkg().Path()]
	if p == nil || p.TypesInfo == nil {
		return nil
	}
	var init *ast.CompositeLit
	written := false
	for _, f := range p.Syntax {
		ast.Inspect(f, func(n ast.Node) bool {
			switch x := n.(type) {
			case *ast.ValueSpec:
				for i, nm := range x.Names {
					if p.TypesInfo.Defs[nm] == o && i < len(x.Values) {
						if cl, ok := x.Values[i].(*ast.CompositeLit); ok {
							init = cl
						}
					}
				}
			case *ast.AssignStmt:
				for _, l := range x.Lhs {
					if usesVar(p.TypesInfo, l, o) {
						written = true
					}
				}
			case *ast.UnaryExpr:
				if x.Op == token.AND && usesVar(p.TypesInfo, x.X, o) {
					written = true
				}
			case *ast.CallExpr:
				if id, ok := x.Fun.(*ast.Ident); ok && id.Name == "append" && len(x.Args) > 0 && usesVar(p.TypesInfo, x.Args[0], o) {
					written = true
				}
			}
			return true
		})
	}
	if init == nil || written {
		return nil
	}
	var out []constant.Value
	for _, el := range init.Elts {
		tv, ok := p.TypesInfo.Types[el]
		if !ok || tv.Value == nil {
			return nil
		}
		out = append(out, tv.Value)
	}
	e.pkgVarCache[o] = out
	return out
}

func usesVar(info *types.Info, e ast.Expr, o *types.Var) bool {
	switch x := ast.Unparen(e).(type) {
	case *ast.Ident:
		return info.Uses[x] == o
	case *ast.IndexExpr:
		return usesVar(info, x.X, o)
	case *ast.SliceExpr:
		return usesVar(info, x.X, o)
	case *ast.SelectorExpr:
		return info.Uses[x.Sel] == o
	}
	return false
}
