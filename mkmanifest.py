#!/usr/bin/env python3
"""Regenerates /verif/MANIFEST.json from the table below. Run after changing what is claimed."""
import json, subprocess
BASE_OFF = "cd /repo && for m in $(cat /w/out/gomods.txt); do MF=$(cd /repo/$m && . /w/out/goenv.sh && gomodflag); (cd /repo/$m && go test $MF -json -vet=off -count=1 -timeout 25m ./...); done"
NOTE_COMMON = ("Trusted: govc itself (VC generator over go/packages typed AST), the SMT solvers (unsat from any of z3 4.8.12 / z3 5.1.0 / cvc5 1.0.3), "
  "Go semantics as summarised in DESIGN.md 3.2 (mathematical integers unless overflow obligations are on, slices as values, monotone clock), "
  "trusted models/contracts of std-lib and third-party callees listed per run in evidence.coverage.trusted_base. ")
claimed = {
 "C06": dict(cat="proof", sec="7/C06",
   text="Deductive proof, for all endpoint lists/statuses/priorities/connection snapshots and all loop iterations, of: the tier rule of PrioritySelector.Select (result routable, member of input, priority >= every routable candidate), the round-robin ticket formula on the value returned by the single atomic add plus the fairness lemmas (closed-form count, base/step/window), and the minimality rule of LeastConnectionsSelector.Select w.r.t. its one connection snapshot; Increment/Decrement = exactly one RecordConnection(+/-1).",
   note="Concurrency only through device (ii) atomic-once on RoundRobinSelector.counter (atomicity of AddUint64 trusted); sort.Slice and math/rand are trusted models; probabilistic 'every tier member is eventually picked' is not decided (only positive weight of every routable status is proved); round-robin fairness across the 2^64 wrap excluded."),
 "C08": dict(cat="proof", sec="7/C08",
   text="Deductive proof that each of the three breakers implements the reference automaton of the statement, per operation and for all field values and clock readings: representation invariants (e.g. open => failures >= threshold) preserved by every operation under contract, opens iff the consecutive-failure threshold is reached, reports open while the timeout has not elapsed since the last failure, admits again afterwards (health: stamped admission => at most one probe per second; unifier: admitted iff probes asked <= configured number), closes on success / re-opens on a failed probe, success clears the count; hence no history (any length) leaves the automaton outside the invariant.",
   note="Sequential proofs; racing callers are covered only where a single atomic read-modify-write decides (atomic-once on unifier.halfOpenRequests); the unifier open->half-open transition race and olla's unlimited half-open admissions are not decided. xsync.Map is a trusted mathematical-map model; the clock is monotone; unifier configuration precondition cfgOK is proved for DefaultConfig only. One genuine defect (health breaker never refreshed its probe stamp) was found by ensures.5 of health.CircuitBreaker.IsOpen, confirmed by replay, and repaired by a fix: commit."),
 "C07": dict(cat="proof", sec="7/C07",
   text="Deductive proof of the health-check state machine per function for all inputs: determineStatus decision table (healthy only for a reached 2xx; connection/timeout/circuit-open errors offline; error statuses unhealthy), classifyError table over the error abstraction, calculateBackoff == (delayOf, nextMult) with the arithmetic lemmas that the multiplier sequence is 1,2,4,8,12,12.. and the delay is min(interval*M, 60 s), checkEndpoint persists exactly the check's status, resets on success, advances failures/multiplier/next-check on failure and spawns one recovery callback iff not-healthy(and not unknown)->healthy and the update succeeded; HealthClient.Check: healthy only after a real client.Do, loop terminates (decreases), success clears the breaker.",
   note="Histories are covered by induction over per-call contracts (sched lemmas), not enumerated. Ghost records (records clauses) name the values flowing into EndpointRepository.UpdateEndpoint and out of HealthClient.Check; they are definitional. Not decided: that the 30 s ticker keeps firing (runtime), the stale-snapshot race between checkEndpoint and markEndpointUnhealthy, overflow of interval*multiplier for intervals above 24 years (mathematical integers). One genuine defect (slow 5xx reported busy) was found, replayed and fixed."),
 "C03": dict(cat="proof", sec="7/C03",
   text="Deductive proof for all endpoint lists and statuses that every selector (priority, round-robin, least-connections) returns a routable member of the list it was given or an error exactly when no member is routable (each refines the EndpointSelector interface contract); the repository hands out only fresh copies (GetHealthy/GetRoutable/GetAll: every element is a new object equal to a stored record with the required status, and every stored record with that status is represented), UpdateEndpoint changes exactly the six scheduling fields of the addressed record and succeeds iff the key is known, all under the repository's lock discipline (guarded_by obligations); DiscoveryService delegates; the retry loop only ever dispatches to Select's result over a subset of the candidate list (loop invariants, unbounded) and marks a connection-failed endpoint offline through exactly one UpdateEndpointStatus call.",
   note="Schedules are covered only through device 1 (every access to the endpoint map happens with the mutex held: checked) and device 3 (snapshots are fresh copies: checked); mutex semantics trusted. The handlers' candidate-set filters (profile/capability/model routing) belong to C09/C11 and are not part of this check. sort.Slice, math/rand, range-over-map enumeration are trusted models; slices are values."),
 "C04": dict(cat="proof", sec="7/C04",
   text="Deductive proof of the failover loop for all outcome sequences (no bound): loop invariants of RetryHandler.ExecuteWithRetry give attempts == old+attemptCount, |available| == |candidates| - attempts, candidates by unique name, each failed/skipped candidate removed (removeFailedEndpoint positional contract), nothing written to the client before a re-dispatch, gauges restored; the final error is built only when every candidate was tried (call-site assertion); a circuit-open skip or a connection error moves on, any other error returns. IsConnectionError is proved equal to a structural definition (net.Error / errno / the nine message patterns read from the code's table); MakeUserFriendlyError is proved to preserve that class in both directions per return site; the olla breaker pre-dial check is covered by C08.",
   note="The attempt function is abstracted by the functype contract core.ProxyFunc (assumed here, see C02 for the engines); uniqueNames(endpoints) is a precondition not established by configuration loading (two endpoints with the same name: not covered). fmt.Errorf/errors.Is/errors.As are trusted models with three listed axioms about net error types; numeric verbs in messages are rendered as \"0\". Three genuine defects were found by these obligations, replayed on the real code and fixed: circuit-open skip ended the request (F04a), timed-out connections lost their connection class (F04c), started responses were re-dispatched (F02, recorded under C02)."),
 "C15": dict(cat="proof", sec="7/C15",
   text="Deductive proof for every header map (any keys, any case, any multiplicity): after core.CopyHeaders no key of the upstream request is sensitive (canonical form in {Authorization, Cookie, X-Api-Key, X-Auth-Token, Proxy-Authorization}) or hop-by-hop (case-folded name in the eight-element table read from the code), every other client header is present with the identical value list, nothing else is added except the six Olla-maintained names (proved benign by a lemma), and existing Via / X-Forwarded-For values are all kept (upstream value starts with strings.Join of the client's values). Map-iteration invariant with a ghost visited set; isHopByHopHeader proved equal to its specification.",
   note="http.CanonicalHeaderKey and EqualFold are uninterpreted functions evaluated by govc on literals (ASCII); http.Header methods and strings.Join are trusted models. That both engines call CopyHeaders (and nothing else that writes headers) on every upstream request is part of the engine contracts (C01/C02), not of this check. One genuine defect (second Via / X-Forwarded-For line dropped) was found, replayed and fixed."),
 "C16": dict(cat="proof", sec="7/C16",
   text="Deductive proof, on all three return paths of common.BuildTargetURL and for all request URLs / endpoint URLs / prefixes, that the upstream URL is a fresh object with the endpoint's Scheme, Host and User, the client's RawQuery verbatim and no fragment; that without preserve_path and with an empty base path the path is the stripped request path, replaced by path.Clean of it whenever it has a plain or percent-encoded dot segment (containsDotDot / containsEncodedDotDot proved equal to their specifications over strings.Split / url.PathUnescape), hence free of dot segments; with preserve_path the path is path.Join(base, stripped path). util.StripPrefix is proved equal to its string specification; ResolveURLPath's trivial cases are proved.",
   note="Weakest proof of the set: path.Join, path.Clean, strings.Split, url.PathUnescape, URL.ResolveReference are uninterpreted/trusted models, with two trusted axioms (path.Clean output has no dot segments; \"/\" has none). Containment under the base path with preserve_path is NOT proved: that branch has no dot-segment guard and relies on net/http.ServeMux cleaning request paths before the handler runs (assumption, listed). LoadFromConfig's use of ResolveURLPath and url.Parse/String round-trips are not covered."),
}
not_applicable = {}
props = [json.loads(l) for l in open('/verif/properties.jsonl')]
TODO = "contracts for this property are not yet discharged in this tree; not claimed until every obligation passes well under the quick timeout (work in progress, see DESIGN.md section 11)"
checks = []
for p in props:
    i = p['id']
    if i in claimed:
        c = claimed[i]
        checks.append({
          "property_id": i, "quick_cmd": "./check %s quick" % i, "thorough_cmd": "./check %s thorough" % i,
          "evidence_file": "/verif/evidence/%s.json" % i, "replay_cmd_template": "./check --replay {path}", "engine": "govc",
          "level_claimed": {"category": c["cat"], "text": c["text"], "design_ref": "DESIGN.md " + c["sec"]},
          "level_note": NOTE_COMMON + c["note"],
          "technique": "contract-based deductive verification: WP/symbolic-execution VCs over the real Go AST, discharged by z3/cvc5",
        })
    else:
        not_applicable.setdefault(i, TODO)
hooks = subprocess.run(["git","-C","/repo","log","--format=%H","--grep=^verif:"],capture_output=True,text=True).stdout.split()
m = {
 "version": 1,
 "setup_cmd": "./setup.sh",
 "hooks": {"guard": "verif", "enable": "go build -tags verif (comment-only zz_contracts_verif.go files; govc loads /repo with -tags=verif)",
           "baseline_off_cmd": BASE_OFF, "source_commits": hooks, "add_only": True},
 "engines": [{"name": "govc", "path": "/verif/govc", "serves_properties": sorted(claimed), "kind_free_text": "home-built deductive verifier for Go: contracts in //@ comment files, VC generation by symbolic execution of the typed AST with loop invariants and modular call contracts, SMT portfolio"}],
 "checks": checks,
 "notes": "All checks share one engine; each invocation reloads /repo's working tree and regenerates every VC. Known findings: /verif/known_findings.txt.",
 "not_applicable": [{"property_id": k, "reason": v} for k, v in sorted(not_applicable.items())],
}
json.dump(m, open('/verif/MANIFEST.json','w'), indent=1)
print("claimed:", sorted(claimed), "not claimed:", sorted(not_applicable))
