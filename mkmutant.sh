#!/bin/sh
# usage: mkmutant.sh <Cxx-name> <file-relative-to-repo> <sed-expr>   -- writes /verif/mutants/<Cxx-name>.diff
set -e
T=$(mktemp -d)
mkdir -p $T/a/$(dirname $2) $T/b/$(dirname $2)
cp /repo/$2 $T/a/$2; cp /repo/$2 $T/b/$2
sed -i "$3" $T/b/$2
if diff -q $T/a/$2 $T/b/$2 >/dev/null; then echo "MUTATION DID NOT APPLY: $1"; rm -rf $T; exit 2; fi
(cd $T && diff -u a/$2 b/$2 > /verif/mutants/$1.diff) || true
rm -rf $T
echo "wrote mutants/$1.diff"
