#!/bin/sh
# usage: mutate.sh <file-relative-to-repo> <sed-expr> <filter>   -- runs govc dev on a scratch copy with one mutation
rm -rf /tmp/sc && rsync -a --exclude .git /repo/ /tmp/sc/ || exit 2
sed -i "$2" /tmp/sc/$1
if diff -q /repo/$1 /tmp/sc/$1 >/dev/null; then echo "MUTATION DID NOT APPLY"; exit 2; fi
cd /verif && GOVC_REPO=/tmp/sc PATH=/root/go/pkg/mod/golang.org/toolchain@v0.0.1-go1.24.0.linux-amd64/bin:$PATH GOTOOLCHAIN=local ./bin/govc dev "$3" 2>&1 | grep -v "^ok" | cut -c1-220
rm -rf /tmp/sc
