package anthropic

// govc replay driver for anthropic.Translator.convertSingleMessage (C12): a user turn that lists its tool results
// before its text (the order Anthropic mandates) must reach the backend in that order: the tool message directly
// after the assistant's tool_calls, the user text after it.

import (
	"bytes"
	"context"
	"encoding/json"
	"fmt"
	"io"
	"net/http"
	"strings"
	"testing"

	"github.com/thushan/olla/internal/config"
	"github.com/thushan/olla/internal/logger"
)

func TestGovcReplay(t *testing.T) {
	lg, _, _ := logger.New(&logger.Config{Level: "error", Theme: "default"})
	tr := NewTranslator(logger.NewPlainStyledLogger(lg), config.AnthropicTranslatorConfig{Enabled: true, MaxMessageSize: 10 << 20})
	body := `{"model":"m","max_tokens":64,"messages":[
	 {"role":"user","content":"weather in Paris?"},
	 {"role":"assistant","content":[{"type":"tool_use","id":"toolu_1","name":"get_weather","input":{"city":"Paris"}}]},
	 {"role":"user","content":[{"type":"tool_result","tool_use_id":"toolu_1","content":"18C"},{"type":"text","text":"and tomorrow?"}]}]}`
	req := &http.Request{Body: io.NopCloser(bytes.NewReader([]byte(body)))}
	res, err := tr.TransformRequest(context.Background(), req)
	if err != nil {
		fmt.Println("REPLAY-NOT-CONFIRMED: transform failed:", err)
		return
	}
	msgs, _ := res.OpenAIRequest["messages"].([]map[string]interface{})
	var order []string
	for _, m := range msgs {
		b, _ := json.Marshal(m)
		order = append(order, string(b))
	}
	fmt.Println("client order : tool_result(toolu_1), text(\"and tomorrow?\")")
	fmt.Println("upstream msgs:", strings.Join(order, " | "))
	// find the positions of the tool message and of the user text that followed it in the client's turn
	toolPos, textPos := -1, -1
	for i, m := range msgs {
		if m["role"] == "tool" {
			toolPos = i
		}
		if m["role"] == "user" && m["content"] == "and tomorrow?" {
			textPos = i
		}
	}
	if toolPos >= 0 && textPos >= 0 && textPos < toolPos {
		fmt.Println("REPLAY-CONFIRMED: the user text is emitted before the tool result it followed (the tool message no longer follows the assistant's tool_calls)")
		return
	}
	fmt.Println("REPLAY-NOT-CONFIRMED")
}
