package anthropic

// govc replay driver for anthropic.Translator.initializeToolBlock (C13): every content block that is opened must be
// closed before the next one opens. Scenario: a completion with two consecutive tool calls, rendered the way OpenAI
// compatible backends stream it; the translated stream is checked by a strict Anthropic SSE state machine.

import (
	"context"
	"encoding/json"
	"fmt"
	"net/http/httptest"
	"strings"
	"testing"

	"github.com/thushan/olla/internal/config"
	"github.com/thushan/olla/internal/logger"
)

func TestGovcReplay(t *testing.T) {
	lg, _, _ := logger.New(&logger.Config{Level: "error", Theme: "default"})
	tr := NewTranslator(logger.NewPlainStyledLogger(lg), config.AnthropicTranslatorConfig{Enabled: true, MaxMessageSize: 10 << 20})
	chunks := []string{
		`{"id":"c1","model":"m","choices":[{"index":0,"delta":{"role":"assistant"}}]}`,
		`{"id":"c1","model":"m","choices":[{"index":0,"delta":{"tool_calls":[{"index":0,"id":"call_a","type":"function","function":{"name":"get_weather","arguments":""}}]}}]}`,
		`{"id":"c1","model":"m","choices":[{"index":0,"delta":{"tool_calls":[{"index":0,"function":{"arguments":"{\"city\":\"Paris\"}"}}]}}]}`,
		`{"id":"c1","model":"m","choices":[{"index":0,"delta":{"tool_calls":[{"index":1,"id":"call_b","type":"function","function":{"name":"get_time","arguments":""}}]}}]}`,
		`{"id":"c1","model":"m","choices":[{"index":0,"delta":{"tool_calls":[{"index":1,"function":{"arguments":"{\"tz\":\"UTC\"}"}}]}}]}`,
		`{"id":"c1","model":"m","choices":[{"index":0,"delta":{},"finish_reason":"tool_calls"}]}`,
	}
	var sb strings.Builder
	for _, c := range chunks {
		sb.WriteString("data: " + c + "\n\n")
	}
	sb.WriteString("data: [DONE]\n\n")
	rec := httptest.NewRecorder()
	req := httptest.NewRequest("POST", "/olla/anthropic/v1/messages", nil)
	if err := tr.TransformStreamingResponse(context.Background(), strings.NewReader(sb.String()), rec, req); err != nil {
		fmt.Println("REPLAY-NOT-CONFIRMED: translation failed:", err)
		return
	}
	// strict Anthropic SSE state machine
	open, next, started, delta, stopped := -1, 0, false, false, false
	var problems []string
	for _, blk := range strings.Split(rec.Body.String(), "\n\n") {
		var ev, data string
		for _, ln := range strings.Split(blk, "\n") {
			if strings.HasPrefix(ln, "event: ") {
				ev = strings.TrimPrefix(ln, "event: ")
			}
			if strings.HasPrefix(ln, "data: ") {
				data = strings.TrimPrefix(ln, "data: ")
			}
		}
		if ev == "" {
			continue
		}
		var m map[string]interface{}
		_ = json.Unmarshal([]byte(data), &m)
		idx := -2
		if f, ok := m["index"].(float64); ok {
			idx = int(f)
		}
		switch ev {
		case "message_start":
			if started {
				problems = append(problems, "second message_start")
			}
			started = true
		case "content_block_start":
			if open != -1 {
				problems = append(problems, fmt.Sprintf("content_block_start index %d while block %d is still open", idx, open))
			}
			if idx != next {
				problems = append(problems, fmt.Sprintf("content_block_start index %d, expected %d", idx, next))
			}
			open, next = idx, next+1
		case "content_block_delta":
			if idx != open {
				problems = append(problems, fmt.Sprintf("delta for block %d while open block is %d", idx, open))
			}
		case "content_block_stop":
			if idx != open {
				problems = append(problems, fmt.Sprintf("content_block_stop index %d while open block is %d", idx, open))
			}
			open = -1
		case "message_delta":
			if open != -1 {
				problems = append(problems, fmt.Sprintf("message_delta while block %d is still open", open))
			}
			delta = true
		case "message_stop":
			if !delta {
				problems = append(problems, "message_stop before message_delta")
			}
			stopped = true
		}
	}
	if !stopped {
		problems = append(problems, "no message_stop")
	}
	fmt.Println("events:", strings.Count(rec.Body.String(), "event: "))
	if len(problems) > 0 {
		fmt.Println("REPLAY-CONFIRMED:", strings.Join(problems, "; "))
		return
	}
	fmt.Println("REPLAY-NOT-CONFIRMED")
}
