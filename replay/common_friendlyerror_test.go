package core

// govc replay driver for common.MakeUserFriendlyError (C04/C02): the error class the retry handler looks at
// (core.IsConnectionError) must survive the user-friendly rewrite. Builds an error of the class the model
// found (a net.Error, optionally also context/EOF) and evaluates both real functions.

import (
	"context"
	"encoding/json"
	"fmt"
	"io"
	"net"
	"os"
	"testing"
	"time"

	"github.com/thushan/olla/internal/adapter/proxy/common"
)

type replayTimeout struct{}

func (replayTimeout) Error() string   { return "i/o timeout" }
func (replayTimeout) Timeout() bool   { return true }
func (replayTimeout) Temporary() bool { return true }

func TestGovcReplay(t *testing.T) {
	var a map[string]string
	if err := json.Unmarshal([]byte(os.Getenv("GOVC_REPLAY_ARGS")), &a); err != nil {
		t.Skip("no replay args")
	}
	candidates := map[string]error{}
	if a[`errorsAs(err, "net.Error")`] == "true" {
		candidates["dial timeout (*net.OpError, Timeout()=true)"] = &net.OpError{Op: "dial", Net: "tcp", Err: replayTimeout{}}
		candidates["connection refused (*net.OpError, Timeout()=false)"] = &net.OpError{Op: "dial", Net: "tcp", Err: fmt.Errorf("connect: connection refused")}
		candidates["awaiting headers timeout (net.Error)"] = replayTimeout{}
	} else {
		candidates["plain error"] = fmt.Errorf("backend said no")
		candidates["unexpected EOF"] = io.ErrUnexpectedEOF
	}
	if a["errorsIs(err, context.Canceled)"] == "true" {
		candidates = map[string]error{"cancelled": context.Canceled}
	}
	confirmed := false
	for name, e := range candidates {
		before := IsConnectionError(e)
		friendly := common.MakeUserFriendlyError(e, 3*time.Second, "backend", 30*time.Second)
		after := IsConnectionError(friendly)
		fmt.Printf("%s: IsConnectionError(before)=%v after MakeUserFriendlyError=%v  (%v)\n", name, before, after, friendly)
		if before != after {
			confirmed = true
			fmt.Printf("REPLAY-CONFIRMED: %s changes class %v -> %v: the retry handler decides failover on the rewritten error\n", name, before, after)
		}
	}
	if !confirmed {
		fmt.Println("REPLAY-NOT-CONFIRMED")
	}
}
