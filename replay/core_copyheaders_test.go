package core

// govc replay driver for core.CopyHeaders (C15): existing Via / X-Forwarded-For values must survive the append.

import (
	"encoding/json"
	"fmt"
	"net/http"
	"os"
	"strconv"
	"strings"
	"testing"
)

func TestGovcReplay(t *testing.T) {
	var a map[string]string
	_ = json.Unmarshal([]byte(os.Getenv("GOVC_REPLAY_ARGS")), &a)
	n := func(k string) int {
		v, _ := strconv.Atoi(a[k])
		if v < 2 {
			v = 2
		}
		if v > 4 {
			v = 4
		}
		return v
	}
	orig, _ := http.NewRequest("GET", "http://client.example/x", nil)
	orig.RemoteAddr = "203.0.113.9:5555"
	for i := 0; i < n(`len(originalReq.Header["Via"])`); i++ {
		orig.Header.Add("Via", fmt.Sprintf("1.1 hop-%d", i))
	}
	for i := 0; i < n(`len(originalReq.Header["X-Forwarded-For"])`); i++ {
		orig.Header.Add("X-Forwarded-For", fmt.Sprintf("198.51.100.%d", i+1))
	}
	out, _ := http.NewRequest("GET", "http://backend.example/x", nil)
	CopyHeaders(out, orig)
	bad := []string{}
	for _, name := range []string{"Via", "X-Forwarded-For"} {
		got := strings.Join(out.Header.Values(name), " | ")
		for _, v := range orig.Header.Values(name) {
			if !strings.Contains(got, v) {
				bad = append(bad, fmt.Sprintf("%s value %q dropped (upstream has %q)", name, v, got))
			}
		}
	}
	fmt.Printf("client Via=%q XFF=%q -> upstream Via=%q XFF=%q\n", orig.Header.Values("Via"), orig.Header.Values("X-Forwarded-For"), out.Header.Values("Via"), out.Header.Values("X-Forwarded-For"))
	if len(bad) > 0 {
		fmt.Println("REPLAY-CONFIRMED:", strings.Join(bad, "; "))
		return
	}
	fmt.Println("REPLAY-NOT-CONFIRMED")
}
