package proxy

// govc replay driver for core.RetryHandler.ExecuteWithRetry, clause "an endpoint skipped because its circuit is
// open does not end the request while another candidate remains" (C04). Runs the REAL olla engine: endpoint A's
// breaker is forced open (five recorded failures), endpoint B is a live backend. Injected into
// internal/adapter/proxy because that package's test helpers build both engines.

import (
	"fmt"
	"net/http"
	"net/http/httptest"
	"testing"
	"time"

	"github.com/thushan/olla/internal/adapter/balancer"
	"github.com/thushan/olla/internal/adapter/proxy/olla"
	"github.com/thushan/olla/internal/core/domain"
)

func TestGovcReplay(t *testing.T) {
	hitsA, hitsB := 0, 0
	upA := httptest.NewServer(http.HandlerFunc(func(w http.ResponseWriter, r *http.Request) { hitsA++; w.WriteHeader(200); _, _ = w.Write([]byte("A")) }))
	upB := httptest.NewServer(http.HandlerFunc(func(w http.ResponseWriter, r *http.Request) { hitsB++; w.WriteHeader(200); _, _ = w.Write([]byte("B")) }))
	defer upA.Close()
	defer upB.Close()
	epA := createTestEndpoint("ep-a", upA.URL, domain.StatusHealthy)
	epA.Priority = 200 // the priority balancer picks A first
	epB := createTestEndpoint("ep-b", upB.URL, domain.StatusHealthy)
	epB.Priority = 100
	endpoints := []*domain.Endpoint{epA, epB}
	collector := createTestStatsCollector()
	cfg := &olla.Configuration{}
	cfg.ResponseTimeout = 5 * time.Second
	cfg.ReadTimeout = 2 * time.Second
	cfg.StreamBufferSize = 8192
	cfg.MaxIdleConns = 10
	cfg.IdleConnTimeout = 30 * time.Second
	cfg.MaxConnsPerHost = 5
	svc, err := olla.NewService(&mockDiscoveryService{endpoints: endpoints}, balancer.NewPrioritySelector(collector), cfg, collector, nil, createTestLogger())
	if err != nil {
		t.Fatalf("olla.NewService: %v", err)
	}
	cb := svc.GetCircuitBreaker(epA.Name)
	for i := 0; i < 5; i++ {
		cb.RecordFailure()
	}
	cb2 := svc.GetCircuitBreaker(epA.URLString)
	for i := 0; i < 5; i++ {
		cb2.RecordFailure()
	}
	req, stats, rlog := createTestRequestWithStats("POST", "/v1/chat/completions", `{"model":"test"}`)
	w := httptest.NewRecorder()
	perr := svc.ProxyRequestToEndpoints(req.Context(), w, req, endpoints, stats, rlog)
	fmt.Printf("breaker(A) open=%v/%v; proxy error=%v; status=%d body=%q; backend hits A=%d B=%d\n", cb.IsOpen(), cb2.IsOpen(), perr, w.Code, w.Body.String(), hitsA, hitsB)
	if perr != nil && hitsB == 0 {
		fmt.Println("REPLAY-CONFIRMED: endpoint A was skipped because its circuit is open, candidate B was never tried, and the request failed:", perr)
		return
	}
	fmt.Println("REPLAY-NOT-CONFIRMED")
}
