package filter

// govc replay driver for filter.GlobFilter.matchesPattern (C10): a cached answer must be the answer of
// pattern.MatchesGlob for the pair that is looked up, whatever was looked up before.

import (
	"encoding/json"
	"fmt"
	"os"
	"strings"
	"testing"

	"github.com/thushan/olla/internal/util/pattern"
)

func TestGovcReplay(t *testing.T) {
	var a map[string]string
	_ = json.Unmarshal([]byte(os.Getenv("GOVC_REPLAY_ARGS")), &a)
	type pair struct{ s, p string }
	var cands []pair
	unq := func(v string) string { return strings.Trim(v, `"`) }
	if s, ok := a["s"]; ok {
		cands = append(cands, pair{unq(s), unq(a["patternStr"])})
	}
	// the solver's witness for the earlier lookup is a bound variable (not printed): enumerate every other way of
	// splitting the same text at "::", plus the smallest example of the same shape
	cands = append(cands, pair{"a::b", "a*"}, pair{"x", "y::x"})
	for _, c := range cands {
		whole := c.s + "::" + c.p
		for i := 0; i+2 <= len(whole); i++ {
			if whole[i:i+2] != "::" {
				continue
			}
			o := pair{whole[:i], whole[i+2:]}
			if o == c {
				continue
			}
			for _, order := range [][2]pair{{o, c}, {c, o}} {
				f := NewGlobFilter().(*GlobFilter)
				first, second := order[0], order[1]
				f.matchesPattern(first.s, first.p)
				got := f.matchesPattern(second.s, second.p)
				want := pattern.MatchesGlob(second.s, second.p)
				if got != want {
					fmt.Printf("after looking up (%q, %q), matchesPattern(%q, %q) = %v but MatchesGlob says %v\n", first.s, first.p, second.s, second.p, got, want)
					fmt.Println("REPLAY-CONFIRMED: cache key collision changes a filter decision")
					return
				}
			}
		}
	}
	fmt.Println("REPLAY-NOT-CONFIRMED")
}
