package handlers

// govc replay driver for handlers.Application.getProviderEndpoints (C11): a provider-scoped route must only ever
// be offered endpoints of that provider. Real Application value with the shipped profiles; one healthy endpoint of
// ANOTHER provider type.

import (
	"context"
	"encoding/json"
	"fmt"
	"net/url"
	"os"
	"testing"

	"github.com/thushan/olla/internal/adapter/registry/profile"
	"github.com/thushan/olla/internal/config"
	"github.com/thushan/olla/internal/core/domain"
)

type replayDiscoverySvc struct{ endpoints []*domain.Endpoint }

func (d *replayDiscoverySvc) GetEndpoints(ctx context.Context) ([]*domain.Endpoint, error) {
	return d.endpoints, nil
}
func (d *replayDiscoverySvc) GetHealthyEndpoints(ctx context.Context) ([]*domain.Endpoint, error) {
	return d.endpoints, nil
}
func (d *replayDiscoverySvc) RefreshEndpoints(ctx context.Context) error { return nil }
func (d *replayDiscoverySvc) UpdateEndpointStatus(ctx context.Context, e *domain.Endpoint) error {
	return nil
}

func TestGovcReplay(t *testing.T) {
	var a map[string]string
	_ = json.Unmarshal([]byte(os.Getenv("GOVC_REPLAY_ARGS")), &a)
	provider := "vllm"
	factory, err := profile.NewFactory("../../../config/profiles")
	if err != nil {
		t.Fatalf("profiles: %v", err)
	}
	u, _ := url.Parse("http://ollama-box:11434")
	other := &domain.Endpoint{Name: "ollama-box", URL: u, URLString: u.String(), Type: "ollama", Status: domain.StatusHealthy}
	log := &mockStyledLogger{}
	app := &Application{
		Config:           &config.Config{Server: config.ServerConfig{RateLimits: config.ServerRateLimits{}}},
		logger:           log,
		discoveryService: &replayDiscoverySvc{endpoints: []*domain.Endpoint{other}},
		profileFactory:   factory,
	}
	pr := &proxyRequest{requestLogger: log, targetPath: "/v1/chat/completions"}
	eps, gerr := app.getProviderEndpoints(context.Background(), provider, pr)
	prof := app.createProviderProfile(provider)
	fmt.Printf("provider route %q (profile supported_by=%v): healthy endpoints = [ollama-box type=ollama]; offered: %d, err=%v\n", provider, prof.SupportedBy, len(eps), gerr)
	for _, e := range eps {
		if !prof.IsCompatibleWith(NormaliseProviderType(e.Type)) {
			fmt.Printf("REPLAY-CONFIRMED: /olla/%s/... would be served by endpoint %s of type %s\n", provider, e.Name, e.Type)
			return
		}
	}
	fmt.Println("REPLAY-NOT-CONFIRMED")
}
