package handlers

// govc replay driver for handlers.Application.proxyHandler (C09): a request that model routing rejects must be
// answered with the status of the routing decision (404: no endpoint lists the model; 503: only unhealthy endpoints
// list it), without the engine being called. Real inspector chain, real strict strategy, stub engine that counts calls.

import (
	"bytes"
	"context"
	"errors"
	"fmt"
	"net/http"
	"net/http/httptest"
	"net/url"
	"strings"
	"testing"

	"github.com/thushan/olla/internal/adapter/inspector"
	"github.com/thushan/olla/internal/adapter/registry/profile"
	"github.com/thushan/olla/internal/adapter/registry/routing"
	"github.com/thushan/olla/internal/config"
	"github.com/thushan/olla/internal/core/domain"
	"github.com/thushan/olla/internal/core/ports"
	"github.com/thushan/olla/internal/logger"
)

type countingEngine struct{ calls int }

func (e *countingEngine) ProxyRequest(ctx context.Context, w http.ResponseWriter, r *http.Request, stats *ports.RequestStats, rlog logger.StyledLogger) error {
	return e.ProxyRequestToEndpoints(ctx, w, r, nil, stats, rlog)
}
func (e *countingEngine) ProxyRequestToEndpoints(ctx context.Context, w http.ResponseWriter, r *http.Request, endpoints []*domain.Endpoint, stats *ports.RequestStats, rlog logger.StyledLogger) error {
	e.calls++
	if len(endpoints) == 0 {
		return errors.New("no healthy endpoints available") // what both real engines return for an empty list
	}
	w.WriteHeader(200)
	return nil
}
func (e *countingEngine) GetStats(ctx context.Context) (ports.ProxyStats, error) { return ports.ProxyStats{}, nil }
func (e *countingEngine) UpdateConfig(configuration ports.ProxyConfiguration)  {}

type healthySvc struct{ eps []*domain.Endpoint }

func (d *healthySvc) GetEndpoints(ctx context.Context) ([]*domain.Endpoint, error)        { return d.eps, nil }
func (d *healthySvc) GetHealthyEndpoints(ctx context.Context) ([]*domain.Endpoint, error) { return d.eps, nil }
func (d *healthySvc) RefreshEndpoints(ctx context.Context) error                          { return nil }
func (d *healthySvc) UpdateEndpointStatus(ctx context.Context, e *domain.Endpoint) error  { return nil }

// a registry in which nobody lists the requested model, routed by the real strict strategy
type emptyListingRegistry struct {
	domain.ModelRegistry
	strict *routing.StrictStrategy
}

func (r *emptyListingRegistry) GetRoutableEndpointsForModel(ctx context.Context, model string, healthy []*domain.Endpoint) ([]*domain.Endpoint, *domain.ModelRoutingDecision, error) {
	return r.strict.GetRoutableEndpoints(ctx, model, healthy, nil)
}

func TestGovcReplay(t *testing.T) {
	lg, _, _ := logger.New(&logger.Config{Level: "error", Theme: "default"})
	slog := logger.NewPlainStyledLogger(lg)
	factory, err := profile.NewFactory("../../../config/profiles")
	if err != nil {
		t.Fatalf("profiles: %v", err)
	}
	ifac := inspector.NewFactory(factory, slog)
	chain := ifac.CreateChain()
	chain.AddInspector(ifac.CreatePathInspector())
	if bi, berr := ifac.CreateBodyInspector(); berr == nil {
		chain.AddInspector(bi)
	}
	u, _ := url.Parse("http://ollama-box:11434")
	ep := &domain.Endpoint{Name: "ollama-box", URL: u, URLString: u.String(), Type: "ollama", Status: domain.StatusHealthy}
	engine := &countingEngine{}
	app := &Application{
		Config:           &config.Config{},
		logger:           slog,
		proxyService:     engine,
		discoveryService: &healthySvc{eps: []*domain.Endpoint{ep}},
		modelRegistry:    &emptyListingRegistry{strict: routing.NewStrictStrategy(slog)},
		inspectorChain:   chain,
		profileFactory:   factory,
	}
	req := httptest.NewRequest("POST", "/olla/proxy/v1/chat/completions", bytes.NewReader([]byte(`{"model":"no-such-model","messages":[{"role":"user","content":"hi"}]}`)))
	req.Header.Set("Content-Type", "application/json")
	rec := httptest.NewRecorder()
	app.proxyHandler(rec, req)
	fmt.Printf("model nobody lists, strict routing: client received %d %q; engine calls=%d\n", rec.Code, strings.TrimSpace(rec.Body.String()), engine.calls)
	if rec.Code != 404 {
		fmt.Println("REPLAY-CONFIRMED: routing rejected the request as not found (404) but the client received", rec.Code)
		return
	}
	fmt.Println("REPLAY-NOT-CONFIRMED")
}
