package handlers

// govc replay driver for the production admission wiring handlers.SecurityAdapters.CreateChainMiddleware (C17).
// Real rate limiter (1 request/minute, burst 1) and real size validator (1 KiB) behind the real middleware.

import (
	"fmt"
	"io"
	"net/http"
	"net/http/httptest"
	"strings"
	"testing"

	"github.com/thushan/olla/internal/adapter/security"
	"github.com/thushan/olla/internal/config"
	"github.com/thushan/olla/internal/core/ports"
)

func TestGovcReplay(t *testing.T) {
	log := &mockStyledLogger{}
	rl := security.NewRateLimitValidator(config.ServerRateLimits{PerIPRequestsPerMinute: 1, BurstSize: 1}, nil, log)
	sv := security.NewSizeValidator(config.ServerRequestLimits{MaxBodySize: 1024}, nil, log)
	served := 0
	next := http.HandlerFunc(func(w http.ResponseWriter, r *http.Request) { served++; w.WriteHeader(200) })
	call := func(sa *SecurityAdapters, remote string, contentLength int64, body string) int {
		req := httptest.NewRequest("POST", "/olla/proxy/v1/chat/completions", strings.NewReader(body))
		req.RemoteAddr = remote
		req.ContentLength = contentLength
		w := httptest.NewRecorder()
		sa.CreateChainMiddleware()(next).ServeHTTP(w, req)
		return w.Code
	}
	var bad []string
	// (a) one client, two TCP connections, limit 1/min burst 1: the second request must be refused
	sa := &SecurityAdapters{securityChain: ports.NewSecurityChain(rl), logger: log}
	c1 := call(sa, "203.0.113.7:40001", 2, "{}")
	c2 := call(sa, "203.0.113.7:40002", 2, "{}")
	fmt.Printf("same client IP, two source ports: %d then %d\n", c1, c2)
	if c1 == 200 && c2 == 200 {
		bad = append(bad, "a second connection of the same client got a fresh rate-limit bucket (client keyed by ip:port)")
	}
	// (b) same connection again: refusal must be 429
	c3 := call(sa, "203.0.113.7:40002", 2, "{}")
	fmt.Printf("third request on the same connection: %d\n", c3)
	if c3 != http.StatusTooManyRequests && c3 != 200 {
		bad = append(bad, fmt.Sprintf("rate-limited request answered %d, not 429", c3))
	}
	// (c) declared body above the limit: must be 413
	// maxBodySize as NewApplication wires it from server.request_limits.max_body_size
	sa2 := &SecurityAdapters{securityChain: ports.NewSecurityChain(sv), logger: log, maxBodySize: 1024}
	c4 := call(sa2, "198.51.100.1:5000", 5000, strings.Repeat("x", 5000))
	fmt.Printf("Content-Length 5000 with a 1024-byte limit: %d\n", c4)
	if c4 != http.StatusRequestEntityTooLarge {
		bad = append(bad, fmt.Sprintf("oversized request answered %d, not 413", c4))
	}
	// (d) chunked body (no Content-Length) of 5000 bytes with a 1024-byte limit: must not reach the handler uncapped
	readBytes := -1
	reader := http.HandlerFunc(func(w http.ResponseWriter, r *http.Request) {
		b, err := io.ReadAll(r.Body)
		readBytes = len(b)
		if err != nil {
			readBytes = -2
		}
		w.WriteHeader(200)
	})
	req := httptest.NewRequest("POST", "/olla/proxy/v1/chat/completions", strings.NewReader(strings.Repeat("y", 5000)))
	req.RemoteAddr = "198.51.100.2:6000"
	req.ContentLength = -1
	w := httptest.NewRecorder()
	sa2.CreateChainMiddleware()(reader).ServeHTTP(w, req)
	fmt.Printf("chunked 5000-byte body with a 1024-byte limit: status %d, handler read %d bytes\n", w.Code, readBytes)
	if readBytes == 5000 {
		bad = append(bad, "a 5000-byte chunked body passed a 1024-byte limit and was read in full by the handler (body never wrapped in MaxBytesReader)")
	}
	if len(bad) > 0 {
		fmt.Println("REPLAY-CONFIRMED:", strings.Join(bad, "; "))
		return
	}
	fmt.Println("REPLAY-NOT-CONFIRMED")
}
