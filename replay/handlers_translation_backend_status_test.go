package handlers

// govc replay driver for handlers.Application.executeTranslatedNonStreamingRequest (C05): a backend's own 4xx/5xx
// answer keeps its status on the way to the client, whatever its body looks like. The engine is a stub that answers
// the way a backend (or a gateway in front of it) does: an error status with a body that is not JSON.

import (
	"bytes"
	"context"
	"encoding/json"
	"fmt"
	"io"
	"net/http"
	"net/http/httptest"
	"os"
	"strconv"
	"testing"
	"time"

	"github.com/thushan/olla/internal/adapter/translator"
	"github.com/thushan/olla/internal/adapter/translator/anthropic"
	"github.com/thushan/olla/internal/config"
	"github.com/thushan/olla/internal/core/domain"
	"github.com/thushan/olla/internal/core/ports"
	"github.com/thushan/olla/internal/logger"
)

type replayEngine struct {
	status int
	body   string
}

func (e *replayEngine) ProxyRequest(ctx context.Context, w http.ResponseWriter, r *http.Request, stats *ports.RequestStats, rlog logger.StyledLogger) error {
	return e.ProxyRequestToEndpoints(ctx, w, r, nil, stats, rlog)
}
func (e *replayEngine) ProxyRequestToEndpoints(ctx context.Context, w http.ResponseWriter, r *http.Request, endpoints []*domain.Endpoint, stats *ports.RequestStats, rlog logger.StyledLogger) error {
	w.Header().Set("Content-Type", "text/plain")
	w.WriteHeader(e.status)
	_, _ = io.WriteString(w, e.body)
	return nil
}
func (e *replayEngine) GetStats(ctx context.Context) (ports.ProxyStats, error) { return ports.ProxyStats{}, nil }
func (e *replayEngine) UpdateConfig(configuration ports.ProxyConfiguration)  {}

func TestGovcReplay(t *testing.T) {
	var a map[string]string
	_ = json.Unmarshal([]byte(os.Getenv("GOVC_REPLAY_ARGS")), &a)
	status, _ := strconv.Atoi(a["recorder.status"])
	if status < 400 || status > 599 {
		status = 429
	}
	lg, _, _ := logger.New(&logger.Config{Level: "error", Theme: "default"})
	slog := logger.NewPlainStyledLogger(lg)
	trans := anthropic.NewTranslator(slog, config.AnthropicTranslatorConfig{Enabled: true, MaxMessageSize: 10 << 20})
	app := &Application{logger: slog, proxyService: &replayEngine{status: status, body: "upstream says no (plain text, not JSON)"}}
	pr := &proxyRequest{requestLogger: slog, stats: &ports.RequestStats{StartTime: time.Now()}, model: "m"}
	req := httptest.NewRequest("POST", "/olla/anthropic/v1/messages", bytes.NewReader([]byte(`{}`)))
	rec := httptest.NewRecorder()
	tr := &translator.TransformedRequest{OpenAIRequest: map[string]interface{}{"model": "m", "stream": false}, ModelName: "m", IsStreaming: false, TargetPath: "/v1/chat/completions"}
	app.executeTranslationRequest(context.Background(), rec, req, []*domain.Endpoint{{Name: "e1", Type: "vllm"}}, pr, trans, tr)
	fmt.Printf("backend answered %d with a non-JSON body; client received %d: %s\n", status, rec.Code, bytes.TrimSpace(rec.Body.Bytes()))
	if rec.Code != status {
		fmt.Println("REPLAY-CONFIRMED: the backend's error status was replaced on the way to the client")
		return
	}
	fmt.Println("REPLAY-NOT-CONFIRMED")
}
