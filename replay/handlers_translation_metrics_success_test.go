package handlers

// govc replay driver for handlers.Application.handleNonStreamingBackendError (C19, translator scope): a request the
// client saw fail with an error status must not be recorded as a success. The engine stub relays a backend 429 (JSON
// error body); the translator metrics event is captured from the real recordTranslatorMetrics.

import (
	"bytes"
	"context"
	"fmt"
	"io"
	"net/http"
	"net/http/httptest"
	"testing"
	"time"

	"github.com/thushan/olla/internal/adapter/translator"
	"github.com/thushan/olla/internal/adapter/translator/anthropic"
	"github.com/thushan/olla/internal/config"
	"github.com/thushan/olla/internal/core/constants"
	"github.com/thushan/olla/internal/core/domain"
	"github.com/thushan/olla/internal/core/ports"
	"github.com/thushan/olla/internal/logger"
)

type backend429Engine struct{}

func (e *backend429Engine) ProxyRequest(ctx context.Context, w http.ResponseWriter, r *http.Request, stats *ports.RequestStats, rlog logger.StyledLogger) error {
	return e.ProxyRequestToEndpoints(ctx, w, r, nil, stats, rlog)
}
func (e *backend429Engine) ProxyRequestToEndpoints(ctx context.Context, w http.ResponseWriter, r *http.Request, endpoints []*domain.Endpoint, stats *ports.RequestStats, rlog logger.StyledLogger) error {
	w.Header().Set("Content-Type", "application/json")
	w.WriteHeader(429)
	_, _ = io.WriteString(w, `{"error":{"message":"Rate limit exceeded","type":"rate_limit_error"}}`)
	return nil
}
func (e *backend429Engine) GetStats(ctx context.Context) (ports.ProxyStats, error) { return ports.ProxyStats{}, nil }
func (e *backend429Engine) UpdateConfig(configuration ports.ProxyConfiguration)  {}

type captureCollector struct {
	ports.StatsCollector
	events []ports.TranslatorRequestEvent
}

func (c *captureCollector) RecordTranslatorRequest(ev ports.TranslatorRequestEvent) { c.events = append(c.events, ev) }

func TestGovcReplay(t *testing.T) {
	lg, _, _ := logger.New(&logger.Config{Level: "error", Theme: "default"})
	slog := logger.NewPlainStyledLogger(lg)
	trans := anthropic.NewTranslator(slog, config.AnthropicTranslatorConfig{Enabled: true, MaxMessageSize: 10 << 20})
	coll := &captureCollector{}
	app := &Application{logger: slog, proxyService: &backend429Engine{}, statsCollector: coll}
	pr := &proxyRequest{requestLogger: slog, stats: &ports.RequestStats{StartTime: time.Now()}, model: "m"}
	req := httptest.NewRequest("POST", "/olla/anthropic/v1/messages", bytes.NewReader([]byte(`{}`)))
	rec := httptest.NewRecorder()
	tr := &translator.TransformedRequest{OpenAIRequest: map[string]interface{}{"model": "m", "stream": false}, ModelName: "m", IsStreaming: false, TargetPath: "/v1/chat/completions"}
	// the two calls the translation handler makes for every translated request
	app.executeTranslationRequest(context.Background(), rec, req, []*domain.Endpoint{{Name: "e1", Type: "vllm"}}, pr, trans, tr)
	app.recordTranslatorMetrics(trans, pr, constants.TranslatorModeTranslation, constants.FallbackReasonNone)
	if len(coll.events) != 1 {
		fmt.Println("REPLAY-NOT-CONFIRMED: events recorded:", len(coll.events))
		return
	}
	fmt.Printf("client received status %d; translator metrics event: success=%v\n", rec.Code, coll.events[0].Success)
	if rec.Code >= 400 && coll.events[0].Success {
		fmt.Println("REPLAY-CONFIRMED: a request the client saw fail with an error status was recorded as a success")
		return
	}
	fmt.Println("REPLAY-NOT-CONFIRMED")
}
