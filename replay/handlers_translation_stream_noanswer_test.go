package handlers

// govc replay driver for handlers.Application.executeTranslatedStreamingRequest (C05): when no backend produced a
// response (the engine gives up without ever writing to the recorder) the client must not receive a 2xx with a
// fabricated, empty completion. The engine is a stub that fails the way a reset connection makes the real ones fail:
// it returns an error and has written nothing.

import (
	"bytes"
	"context"
	"errors"
	"fmt"
	"net/http"
	"net/http/httptest"
	"strings"
	"testing"
	"time"

	"github.com/thushan/olla/internal/adapter/translator"
	"github.com/thushan/olla/internal/adapter/translator/anthropic"
	"github.com/thushan/olla/internal/config"
	"github.com/thushan/olla/internal/core/domain"
	"github.com/thushan/olla/internal/core/ports"
	"github.com/thushan/olla/internal/logger"
)

type noAnswerEngine struct{}

func (e *noAnswerEngine) ProxyRequest(ctx context.Context, w http.ResponseWriter, r *http.Request, stats *ports.RequestStats, rlog logger.StyledLogger) error {
	return errors.New("read tcp 10.0.0.1:5555->10.0.0.2:8000: read: connection reset by peer")
}
func (e *noAnswerEngine) ProxyRequestToEndpoints(ctx context.Context, w http.ResponseWriter, r *http.Request, endpoints []*domain.Endpoint, stats *ports.RequestStats, rlog logger.StyledLogger) error {
	return errors.New("read tcp 10.0.0.1:5555->10.0.0.2:8000: read: connection reset by peer")
}
func (e *noAnswerEngine) GetStats(ctx context.Context) (ports.ProxyStats, error) { return ports.ProxyStats{}, nil }
func (e *noAnswerEngine) UpdateConfig(configuration ports.ProxyConfiguration)  {}

func TestGovcReplay(t *testing.T) {
	lg, _, _ := logger.New(&logger.Config{Level: "error", Theme: "default"})
	slog := logger.NewPlainStyledLogger(lg)
	trans := anthropic.NewTranslator(slog, config.AnthropicTranslatorConfig{Enabled: true, MaxMessageSize: 10 << 20})
	app := &Application{logger: slog, proxyService: &noAnswerEngine{}}
	pr := &proxyRequest{requestLogger: slog, stats: &ports.RequestStats{StartTime: time.Now()}, model: "m"}
	req := httptest.NewRequest("POST", "/olla/anthropic/v1/messages", bytes.NewReader([]byte(`{}`)))
	rec := httptest.NewRecorder()
	tr := &translator.TransformedRequest{OpenAIRequest: map[string]interface{}{"model": "m", "stream": true}, ModelName: "m", IsStreaming: true, TargetPath: "/v1/chat/completions"}
	done := make(chan struct{})
	go func() {
		defer close(done)
		app.executeTranslationRequest(context.Background(), rec, req, []*domain.Endpoint{{Name: "e1", Type: "vllm"}}, pr, trans, tr)
	}()
	select {
	case <-done:
	case <-time.After(10 * time.Second):
		fmt.Println("REPLAY-NOT-CONFIRMED: handler did not finish")
		return
	}
	body := rec.Body.String()
	fmt.Printf("engine failed without answering; client received status %d, content-type %q, %d bytes\n", rec.Code, rec.Header().Get("Content-Type"), len(body))
	if rec.Code >= 200 && rec.Code < 300 {
		if strings.Contains(body, "message_stop") {
			fmt.Println("body is a complete, empty Anthropic message (message_start .. message_stop)")
		}
		fmt.Println("REPLAY-CONFIRMED: a 2xx answer although no backend produced a response")
		return
	}
	fmt.Println("REPLAY-NOT-CONFIRMED")
}
