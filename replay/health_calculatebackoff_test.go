package health

// govc replay driver for health.calculateBackoff: delay = min(interval x max(multiplier,1), 60 s) on failure (C07).

import (
	"encoding/json"
	"fmt"
	"os"
	"strconv"
	"testing"
	"time"

	"github.com/thushan/olla/internal/core/domain"
)

func TestGovcReplay(t *testing.T) {
	var a map[string]string
	if err := json.Unmarshal([]byte(os.Getenv("GOVC_REPLAY_ARGS")), &a); err != nil {
		t.Skip("no replay args")
	}
	geti := func(k string) int64 { v, _ := strconv.ParseInt(a[k], 10, 64); return v }
	iv, m, success := time.Duration(geti("endpoint.CheckInterval")), int(geti("endpoint.BackoffMultiplier")), a["success"] == "true"
	ep := &domain.Endpoint{CheckInterval: iv, BackoffMultiplier: m}
	d, nm := calculateBackoff(ep, success)
	fmt.Printf("calculateBackoff(interval=%v, multiplier=%d, success=%v) = (%v, %d)\n", iv, m, success, d, nm)
	if success {
		if d != iv || nm != 1 {
			fmt.Println("REPLAY-CONFIRMED: success does not return to check_interval x1")
			return
		}
	} else {
		mm := int64(m)
		if mm < 1 {
			mm = 1
		}
		want := time.Duration(int64(iv) * mm)
		if want > 60*time.Second {
			want = 60 * time.Second
		}
		if d != want {
			fmt.Printf("REPLAY-CONFIRMED: delay %v, schedule says min(interval x multiplier, 60s) = %v\n", d, want)
			return
		}
	}
	fmt.Println("REPLAY-NOT-CONFIRMED")
}
