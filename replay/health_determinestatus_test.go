package health

// govc replay driver for health.determineStatus: evaluates the decision table of property C07 on the model's inputs.

import (
	"encoding/json"
	"errors"
	"fmt"
	"os"
	"strconv"
	"testing"
	"time"

	"github.com/thushan/olla/internal/core/domain"
)

func TestGovcReplay(t *testing.T) {
	var a map[string]string
	if err := json.Unmarshal([]byte(os.Getenv("GOVC_REPLAY_ARGS")), &a); err != nil {
		t.Skip("no replay args")
	}
	geti := func(k string) int64 { v, _ := strconv.ParseInt(a[k], 10, 64); return v }
	code, lat, et := int(geti("statusCode")), time.Duration(geti("latency")), domain.HealthCheckErrorType(geti("errorType"))
	var err error
	if geti("err") != 0 {
		err = errors.New("replayed error")
	}
	got := determineStatus(code, lat, err, et)
	var want domain.EndpointStatus
	switch {
	case err != nil && (et == domain.ErrorTypeNetwork || et == domain.ErrorTypeTimeout || et == domain.ErrorTypeCircuitOpen):
		want = domain.StatusOffline
	case err != nil:
		want = domain.StatusUnhealthy
	case code >= 200 && code < 300 && lat <= 10*time.Second:
		want = domain.StatusHealthy
	case code >= 200 && code < 300:
		want = domain.StatusBusy
	default:
		want = domain.StatusUnhealthy
	}
	fmt.Printf("determineStatus(%d, %v, err=%v, type=%d) = %q, table says %q\n", code, lat, err, et, got, want)
	if got != want {
		fmt.Println("REPLAY-CONFIRMED: status differs from the decision table of C07")
		return
	}
	fmt.Println("REPLAY-NOT-CONFIRMED")
}
