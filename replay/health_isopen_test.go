package health

// govc replay driver for health.CircuitBreaker.IsOpen (injected with go test -overlay; never written to /repo).
// Model times are mapped onto the real clock as offsets from the model's entry clock value.

import (
	"encoding/json"
	"fmt"
	"os"
	"strconv"
	"sync/atomic"
	"testing"
	"time"
)

func TestGovcReplay(t *testing.T) {
	var a map[string]string
	if err := json.Unmarshal([]byte(os.Getenv("GOVC_REPLAY_ARGS")), &a); err != nil {
		t.Skip("no replay args")
	}
	geti := func(k string) int64 { v, _ := strconv.ParseInt(a[k], 10, 64); return v }
	mnow := geti("now")
	present := a["xhas(cb.endpoints, endpointURL)"] == "true"
	cb := NewCircuitBreaker()
	real0 := time.Now().UnixNano()
	rel := func(m int64) int64 {
		if m == 0 {
			return 0
		}
		return real0 + (m - mnow)
	}
	var st *circuitState
	if present {
		st = &circuitState{
			failures:    geti("xget(cb.endpoints, endpointURL).failures"),
			lastFailure: rel(geti("xget(cb.endpoints, endpointURL).lastFailure")),
			lastAttempt: rel(geti("xget(cb.endpoints, endpointURL).lastAttempt")),
			isOpen:      int32(geti("xget(cb.endpoints, endpointURL).isOpen")),
		}
		cb.endpoints.Store("u", st)
	}
	fmt.Printf("replay input: present=%v state=%+v (real0=%d)\n", present, st, real0)
	oldAttempt := int64(0)
	if st != nil {
		oldAttempt = st.lastAttempt
	}
	res := cb.IsOpen("u")
	end := time.Now().UnixNano()
	bad := ""
	switch {
	case !present && res:
		bad = "unknown endpoint reported open"
	case present && st.isOpen == 0 && res:
		bad = "closed breaker reported open"
	case present && st.isOpen == 1 && end <= st.lastFailure+int64(30*time.Second) && !res:
		bad = "open breaker admitted a call before its timeout elapsed"
	case present && st.isOpen == 1 && !res && atomic.LoadInt64(&st.lastAttempt) < real0:
		bad = fmt.Sprintf("admission not stamped: lastAttempt=%d is older than this call (%d): every later caller is admitted too", atomic.LoadInt64(&st.lastAttempt), real0)
	case present && st.isOpen == 1 && !res && oldAttempt != 0 && oldAttempt+int64(time.Second) > end:
		bad = "second probe admitted within one second of the previous one"
	}
	if bad != "" {
		// second call right away: must not be admitted again within the same second
		res2 := cb.IsOpen("u")
		fmt.Printf("IsOpen=%v, immediate second IsOpen=%v\n", res, res2)
		fmt.Println("REPLAY-CONFIRMED:", bad)
		return
	}
	fmt.Println("REPLAY-NOT-CONFIRMED: IsOpen =", res)
}
