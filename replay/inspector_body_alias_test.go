package inspector

// govc replay driver for inspector.BodyInspector.Inspect (C01, ownership): the body restored for request 1 must
// not read from the pooled buffer, which the inspection of request 2 reuses. Sequential: no concurrency needed.

import (
	"bytes"
	"context"
	"fmt"
	"io"
	"net/http"
	"strings"
	"testing"

	"github.com/thushan/olla/internal/core/domain"
)

func TestGovcReplay(t *testing.T) {
	bi, err := NewBodyInspector(&mockStyledLogger{})
	if err != nil {
		t.Fatal(err)
	}
	mk := func(body string) *http.Request {
		r, _ := http.NewRequest("POST", "http://olla/olla/proxy/v1/chat/completions", io.NopCloser(strings.NewReader(body)))
		r.Header.Set("Content-Type", "application/json")
		r.ContentLength = int64(len(body))
		return r
	}
	body1 := `{"model":"AAAA","messages":[{"role":"user","content":"request one of client A"}]}`
	body2 := `{"model":"BBBB","messages":[{"role":"user","content":"request two of client B"}]}`
	r1, r2 := mk(body1), mk(body2)
	_ = bi.Inspect(context.Background(), r1, domain.NewRequestProfile("/v1/chat/completions"))
	_ = bi.Inspect(context.Background(), r2, domain.NewRequestProfile("/v1/chat/completions"))
	got1, _ := io.ReadAll(r1.Body)
	fmt.Printf("client A sent  %q\nupstream sees  %q\n", body1, string(got1))
	if !bytes.Equal(got1, []byte(body1)) {
		fmt.Println("REPLAY-CONFIRMED: the body forwarded for request 1 was overwritten by the inspection of request 2 (restored body aliases the pooled buffer)")
		return
	}
	fmt.Println("REPLAY-NOT-CONFIRMED")
}
