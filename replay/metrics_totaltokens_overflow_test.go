package metrics

// govc replay driver for metrics.Extractor.runCalculations (C20): token counts reported by a backend are clamped to
// int32 one by one, and their sum must still be a sane (non-wrapped) number.

import (
	"encoding/json"
	"fmt"
	"os"
	"strconv"
	"strings"
	"testing"

	"github.com/tidwall/gjson"

	"github.com/thushan/olla/internal/core/domain"
)

func TestGovcReplay(t *testing.T) {
	var a map[string]string
	_ = json.Unmarshal([]byte(os.Getenv("GOVC_REPLAY_ARGS")), &a)
	num := func(k string, def int64) int64 {
		v := strings.NewReplacer("(", "", ")", "", " ", "").Replace(a[k])
		n, err := strconv.ParseInt(v, 10, 64)
		if err != nil || n <= 0 {
			return def
		}
		return n
	}
	in, out := num("metrics.InputTokens", 2147483647), num("metrics.OutputTokens", 2147483647)
	e := &Extractor{}
	m := &domain.ProviderMetrics{}
	// the values reach the record the way a backend's numbers do: through gjson and mapFieldToMetrics
	e.mapFieldToMetrics("input_tokens", gjson.Parse(strconv.FormatInt(in, 10)), m)
	e.mapFieldToMetrics("output_tokens", gjson.Parse(strconv.FormatInt(out, 10)), m)
	e.runCalculations("replay", map[string]interface{}{}, nil, m)
	fmt.Printf("backend reports input=%d output=%d -> InputTokens=%d OutputTokens=%d TotalTokens=%d\n", in, out, m.InputTokens, m.OutputTokens, m.TotalTokens)
	if m.InputTokens > 0 && m.OutputTokens > 0 && int64(m.TotalTokens) != int64(m.InputTokens)+int64(m.OutputTokens) && m.TotalTokens < m.InputTokens {
		fmt.Println("REPLAY-CONFIRMED: TotalTokens wrapped around (int32 overflow of InputTokens+OutputTokens)")
		return
	}
	fmt.Println("REPLAY-NOT-CONFIRMED")
}
