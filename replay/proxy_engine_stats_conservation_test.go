package proxy

// govc replay driver for the engines' ProxyRequestToEndpointsWithRetry (C19, engine scope): after a request that
// failed over once (first endpoint refuses the connection, second answers) the engine's own counters must still
// satisfy total == successes + failures.

import (
	"context"
	"fmt"
	"net"
	"net/http"
	"net/http/httptest"
	"testing"
	"time"

	"github.com/thushan/olla/internal/adapter/balancer"
	"github.com/thushan/olla/internal/adapter/proxy/olla"
	"github.com/thushan/olla/internal/adapter/proxy/sherpa"
	"github.com/thushan/olla/internal/core/domain"
	"github.com/thushan/olla/internal/core/ports"
)

func conservationRun(name string, build func(ports.DiscoveryService, domain.EndpointSelector, ports.StatsCollector) (ports.ProxyService, error)) bool {
	// an address nobody listens on: connection refused
	l, _ := net.Listen("tcp", "127.0.0.1:0")
	dead := "http://" + l.Addr().String()
	_ = l.Close()
	up := httptest.NewServer(http.HandlerFunc(func(w http.ResponseWriter, r *http.Request) {
		w.WriteHeader(200)
		_, _ = w.Write([]byte(`{"ok":true}`))
	}))
	defer up.Close()
	epA := createTestEndpoint("ep-dead", dead, domain.StatusHealthy)
	epA.Priority = 200
	epB := createTestEndpoint("ep-live", up.URL, domain.StatusHealthy)
	epB.Priority = 100
	endpoints := []*domain.Endpoint{epA, epB}
	collector := createTestStatsCollector()
	svc, err := build(&mockDiscoveryService{endpoints: endpoints}, balancer.NewPrioritySelector(collector), collector)
	if err != nil {
		fmt.Println("build failed:", err)
		return false
	}
	req, stats, rlog := createTestRequestWithStats("POST", "/v1/chat/completions", `{"model":"test"}`)
	w := httptest.NewRecorder()
	perr := svc.ProxyRequestToEndpoints(req.Context(), w, req, endpoints, stats, rlog)
	st, _ := svc.GetStats(context.Background())
	fmt.Printf("%s: one request, failover after a refused connection: error=%v status=%d; engine stats total=%d successful=%d failed=%d\n", name, perr, w.Code, st.TotalRequests, st.SuccessfulRequests, st.FailedRequests)
	return st.TotalRequests != st.SuccessfulRequests+st.FailedRequests
}

func TestGovcReplay(t *testing.T) {
	badS := conservationRun("sherpa", func(d ports.DiscoveryService, sel domain.EndpointSelector, c ports.StatsCollector) (ports.ProxyService, error) {
		cfg := &sherpa.Configuration{}
		cfg.ResponseTimeout = 5 * time.Second
		cfg.ReadTimeout = 2 * time.Second
		cfg.StreamBufferSize = 1024
		return sherpa.NewService(d, sel, cfg, c, nil, createTestLogger())
	})
	badO := conservationRun("olla", func(d ports.DiscoveryService, sel domain.EndpointSelector, c ports.StatsCollector) (ports.ProxyService, error) {
		cfg := &olla.Configuration{}
		cfg.ResponseTimeout = 5 * time.Second
		cfg.ReadTimeout = 2 * time.Second
		cfg.StreamBufferSize = 8192
		cfg.MaxIdleConns = 10
		cfg.IdleConnTimeout = 30 * time.Second
		cfg.MaxConnsPerHost = 5
		return olla.NewService(d, sel, cfg, c, nil, createTestLogger())
	})
	if badS || badO {
		fmt.Printf("REPLAY-CONFIRMED: engine counters are not conserved after a failover (sherpa=%v olla=%v): total != successful + failed\n", badS, badO)
		return
	}
	fmt.Println("REPLAY-NOT-CONFIRMED")
}
