package proxy

// govc replay driver for the functype contract core.ProxyFunc "an error that makes the retry handler re-dispatch
// leaves the response untouched" (C02). Real engines: backend A sends headers and part of the body and then
// resets the connection; backend B is healthy. The client must never receive bytes of both.

import (
	"fmt"
	"net"
	"net/http"
	"net/http/httptest"
	"strings"
	"testing"
	"time"

	"github.com/thushan/olla/internal/adapter/balancer"
	"github.com/thushan/olla/internal/adapter/proxy/olla"
	"github.com/thushan/olla/internal/adapter/proxy/sherpa"
	"github.com/thushan/olla/internal/core/domain"
	"github.com/thushan/olla/internal/core/ports"
)

func replayResettingBackend() *httptest.Server {
	return httptest.NewServer(http.HandlerFunc(func(w http.ResponseWriter, r *http.Request) {
		w.Header().Set("Content-Type", "text/plain")
		w.Header().Set("Content-Length", "1000")
		w.WriteHeader(200)
		_, _ = w.Write([]byte("AAAA-partial-from-backend-A|"))
		if f, ok := w.(http.Flusher); ok {
			f.Flush()
		}
		time.Sleep(50 * time.Millisecond)
		hj, ok := w.(http.Hijacker)
		if !ok {
			return
		}
		c, _, err := hj.Hijack()
		if err != nil {
			return
		}
		if tc, ok := c.(*net.TCPConn); ok {
			_ = tc.SetLinger(0) // RST on close
		}
		_ = c.Close()
	}))
}

func replayRun(name string, build func(ports.DiscoveryService, domain.EndpointSelector, ports.StatsCollector) (ports.ProxyService, error)) bool {
	upA := replayResettingBackend()
	upB := httptest.NewServer(http.HandlerFunc(func(w http.ResponseWriter, r *http.Request) {
		w.WriteHeader(200)
		_, _ = w.Write([]byte("BBBB-complete-from-backend-B"))
	}))
	defer upA.Close()
	defer upB.Close()
	epA := createTestEndpoint("ep-a", upA.URL, domain.StatusHealthy)
	epA.Priority = 200
	epB := createTestEndpoint("ep-b", upB.URL, domain.StatusHealthy)
	epB.Priority = 100
	endpoints := []*domain.Endpoint{epA, epB}
	collector := createTestStatsCollector()
	svc, err := build(&mockDiscoveryService{endpoints: endpoints}, balancer.NewPrioritySelector(collector), collector)
	if err != nil {
		fmt.Println("build failed:", err)
		return false
	}
	req, stats, rlog := createTestRequestWithStats("POST", "/v1/chat/completions", `{"model":"test"}`)
	w := httptest.NewRecorder()
	perr := svc.ProxyRequestToEndpoints(req.Context(), w, req, endpoints, stats, rlog)
	body := w.Body.String()
	fmt.Printf("%s: error=%v status=%d body=%q\n", name, perr, w.Code, body)
	return strings.Contains(body, "AAAA") && strings.Contains(body, "BBBB")
}

func TestGovcReplay(t *testing.T) {
	mixedS := replayRun("sherpa", func(d ports.DiscoveryService, sel domain.EndpointSelector, c ports.StatsCollector) (ports.ProxyService, error) {
		cfg := &sherpa.Configuration{}
		cfg.ResponseTimeout = 5 * time.Second
		cfg.ReadTimeout = 2 * time.Second
		cfg.StreamBufferSize = 1024
		return sherpa.NewService(d, sel, cfg, c, nil, createTestLogger())
	})
	mixedO := replayRun("olla", func(d ports.DiscoveryService, sel domain.EndpointSelector, c ports.StatsCollector) (ports.ProxyService, error) {
		cfg := &olla.Configuration{}
		cfg.ResponseTimeout = 5 * time.Second
		cfg.ReadTimeout = 2 * time.Second
		cfg.StreamBufferSize = 8192
		cfg.MaxIdleConns = 10
		cfg.IdleConnTimeout = 30 * time.Second
		cfg.MaxConnsPerHost = 5
		return olla.NewService(d, sel, cfg, c, nil, createTestLogger())
	})
	if mixedS || mixedO {
		fmt.Printf("REPLAY-CONFIRMED: the client received bytes of backend A followed by bytes of backend B (sherpa=%v olla=%v): a started response was re-dispatched\n", mixedS, mixedO)
		return
	}
	fmt.Println("REPLAY-NOT-CONFIRMED")
}
