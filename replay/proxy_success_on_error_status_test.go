package proxy

// govc replay driver for proxyToSingleEndpoint's RecordSuccess call (C19): a request the client saw fail with an
// error status must not be recorded as a success. The backend answers 500; the per-endpoint and engine counters are
// read back from the real collector / engine.

import (
	"context"
	"fmt"
	"net/http"
	"net/http/httptest"
	"testing"
	"time"

	"github.com/thushan/olla/internal/adapter/balancer"
	"github.com/thushan/olla/internal/adapter/proxy/olla"
	"github.com/thushan/olla/internal/adapter/proxy/sherpa"
	"github.com/thushan/olla/internal/core/domain"
	"github.com/thushan/olla/internal/core/ports"
)

func errorStatusRun(name string, build func(ports.DiscoveryService, domain.EndpointSelector, ports.StatsCollector) (ports.ProxyService, error)) bool {
	up := httptest.NewServer(http.HandlerFunc(func(w http.ResponseWriter, r *http.Request) {
		w.Header().Set("Content-Type", "application/json")
		w.WriteHeader(500)
		_, _ = w.Write([]byte(`{"error":"backend exploded"}`))
	}))
	defer up.Close()
	ep := createTestEndpoint("ep-500", up.URL, domain.StatusHealthy)
	endpoints := []*domain.Endpoint{ep}
	collector := createTestStatsCollector()
	svc, err := build(&mockDiscoveryService{endpoints: endpoints}, balancer.NewPrioritySelector(collector), collector)
	if err != nil {
		fmt.Println("build failed:", err)
		return false
	}
	req, stats, rlog := createTestRequestWithStats("POST", "/v1/chat/completions", `{"model":"test"}`)
	w := httptest.NewRecorder()
	perr := svc.ProxyRequestToEndpoints(req.Context(), w, req, endpoints, stats, rlog)
	st, _ := svc.GetStats(context.Background())
	fmt.Printf("%s: backend answered 500; client saw %d (error=%v); engine stats successful=%d failed=%d\n", name, w.Code, perr, st.SuccessfulRequests, st.FailedRequests)
	return w.Code >= 400 && st.SuccessfulRequests > 0
}

func TestGovcReplay(t *testing.T) {
	badS := errorStatusRun("sherpa", func(d ports.DiscoveryService, sel domain.EndpointSelector, c ports.StatsCollector) (ports.ProxyService, error) {
		cfg := &sherpa.Configuration{}
		cfg.ResponseTimeout = 5 * time.Second
		cfg.ReadTimeout = 2 * time.Second
		cfg.StreamBufferSize = 1024
		return sherpa.NewService(d, sel, cfg, c, nil, createTestLogger())
	})
	badO := errorStatusRun("olla", func(d ports.DiscoveryService, sel domain.EndpointSelector, c ports.StatsCollector) (ports.ProxyService, error) {
		cfg := &olla.Configuration{}
		cfg.ResponseTimeout = 5 * time.Second
		cfg.ReadTimeout = 2 * time.Second
		cfg.StreamBufferSize = 8192
		cfg.MaxIdleConns = 10
		cfg.IdleConnTimeout = 30 * time.Second
		cfg.MaxConnsPerHost = 5
		return olla.NewService(d, sel, cfg, c, nil, createTestLogger())
	})
	if badS || badO {
		fmt.Printf("REPLAY-CONFIRMED: a request answered with an error status was recorded as a success (sherpa=%v olla=%v)\n", badS, badO)
		return
	}
	fmt.Println("REPLAY-NOT-CONFIRMED")
}
