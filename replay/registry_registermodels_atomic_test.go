package registry

// govc replay driver for registry.MemoryModelRegistry.RegisterModels (C10): a rejected update must leave the
// previous attribution intact (listing, model->endpoints lookup, availability).

import (
	"context"
	"encoding/json"
	"fmt"
	"os"
	"sort"
	"strconv"
	"strings"
	"testing"

	"github.com/thushan/olla/internal/core/domain"
	"github.com/thushan/olla/internal/logger"
)

func TestGovcReplay(t *testing.T) {
	var a map[string]string
	_ = json.Unmarshal([]byte(os.Getenv("GOVC_REPLAY_ARGS")), &a)
	n, _ := strconv.Atoi(a["len(models)"])
	if n < 2 {
		n = 2
	}
	if n > 6 {
		n = 6
	}
	ctx := context.Background()
	lg, _, _ := logger.New(&logger.Config{Level: "error", Theme: "default"})
	r := NewMemoryModelRegistry(logger.NewPlainStyledLogger(lg))
	const u = "http://backend-1:11434"
	if err := r.RegisterModels(ctx, u, []*domain.ModelInfo{{Name: "alpha"}, {Name: "beta"}}); err != nil {
		fmt.Println("REPLAY-NOT-CONFIRMED: setup failed:", err)
		return
	}
	snapshot := func() string {
		ms, _ := r.GetModelsForEndpoint(ctx, u)
		var names []string
		for _, m := range ms {
			names = append(names, m.Name)
		}
		var idx []string
		for _, m := range []string{"alpha", "beta", "gamma-0"} {
			eps, _ := r.GetEndpointsForModel(ctx, m)
			sort.Strings(eps)
			idx = append(idx, fmt.Sprintf("%s->%v avail=%v", m, eps, r.IsModelAvailable(ctx, m)))
		}
		return fmt.Sprintf("listing=%v index=[%s]", names, strings.Join(idx, "; "))
	}
	before := snapshot()
	// a listing of n entries whose last entry has no name: rejected by RegisterModels
	var bad []*domain.ModelInfo
	for i := 0; i < n-1; i++ {
		bad = append(bad, &domain.ModelInfo{Name: fmt.Sprintf("gamma-%d", i)})
	}
	bad = append(bad, &domain.ModelInfo{Name: ""})
	err := r.RegisterModels(ctx, u, bad)
	after := snapshot()
	fmt.Printf("update rejected with: %v\nbefore: %s\nafter:  %s\n", err, before, after)
	if err != nil && before != after {
		fmt.Println("REPLAY-CONFIRMED: a rejected RegisterModels changed the attribution")
		return
	}
	fmt.Println("REPLAY-NOT-CONFIRMED")
}
