package routing

// govc replay driver for routing.DiscoveryStrategy.GetRoutableEndpoints (C09): with fallback "none" or
// "compatible_only" the strategy must never fall back to endpoints that do not list the model.

import (
	"context"
	"encoding/json"
	"errors"
	"fmt"
	"os"
	"testing"

	"github.com/thushan/olla/internal/config"
	"github.com/thushan/olla/internal/core/domain"
	"github.com/thushan/olla/internal/logger"
)

type replayDiscovery struct{}

func (replayDiscovery) GetEndpoints(ctx context.Context) ([]*domain.Endpoint, error) { return nil, nil }
func (replayDiscovery) GetHealthyEndpoints(ctx context.Context) ([]*domain.Endpoint, error) {
	return nil, errors.New("repository unavailable")
}
func (replayDiscovery) RefreshEndpoints(ctx context.Context) error { return nil }
func (replayDiscovery) UpdateEndpointStatus(ctx context.Context, e *domain.Endpoint) error {
	return nil
}

func TestGovcReplay(t *testing.T) {
	var a map[string]string
	_ = json.Unmarshal([]byte(os.Getenv("GOVC_REPLAY_ARGS")), &a)
	fb := a["s.options.FallbackBehavior"]
	if fb != "none" && fb != "compatible_only" {
		fb = "compatible_only"
	}
	lcfg := &logger.Config{Level: "error", Theme: "default"}
	lg, _, _ := logger.New(lcfg)
	s := NewDiscoveryStrategy(replayDiscovery{}, config.ModelRoutingStrategyOptions{FallbackBehavior: fb, DiscoveryRefreshOnMiss: true}, logger.NewPlainStyledLogger(lg))
	healthy := []*domain.Endpoint{{Name: "a", URLString: "http://a"}, {Name: "b", URLString: "http://b"}}
	eps, decision, err := s.GetRoutableEndpoints(context.Background(), "llama3", healthy, []string{"http://c"})
	fmt.Printf("fallback=%q -> %d endpoints, decision=%+v, err=%v\n", fb, len(eps), decision, err)
	if len(eps) > 0 && decision != nil && decision.Action == "fallback" {
		fmt.Println("REPLAY-CONFIRMED: model listed only on endpoint c, yet the request is routed to all healthy endpoints although fallback is", fb)
		return
	}
	fmt.Println("REPLAY-NOT-CONFIRMED")
}
