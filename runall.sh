#!/bin/sh
# Runs every claimed check on /repo (quick tier) and rewrites the evidence files.
cd "$(dirname "$0")" || exit 2
rc=0
for p in $(python3 -c "import json;print(' '.join(c['property_id'] for c in json.load(open('MANIFEST.json'))['checks']))"); do
  ./check $p ${1:-quick} | tail -3 | cut -c1-200 || rc=1
done
exit $rc
