#!/bin/sh
# Runs every archived seeded change against the check of its property (on a scratch copy of /repo) and prints a table.
cd /verif || exit 2
for d in seeded/C*; do
  id=$(basename $d)
  p=$d/patch.diff
  [ -f $d/patch.rebased.diff ] && p=$d/patch.rebased.diff
  if ! git -C /repo apply --check $PWD/$p 2>/dev/null; then echo "$id patch-does-not-apply"; continue; fi
  out=$(./seedcheck.sh $PWD/$p $id 2>&1)
  n=$(echo "$out" | grep -c "^VIOLATION")
  first=$(echo "$out" | grep "^VIOLATION" | head -1 | sed 's/.*obligation=//' | cut -c1-120)
  if [ "$n" -gt 0 ]; then echo "$id caught violations=$n first=$first"; else echo "$id MISSED $(echo "$out" | tail -1 | cut -c1-120)"; fi
done
