#!/bin/sh
# usage: seedcheck.sh <patch.diff> <property>...   -- applies the patch to a scratch copy of /repo and runs the checks on it
P="$1"; shift
D=/tmp/sc-$$
rm -rf $D && rsync -a --exclude .git /repo/ $D/ || exit 2
if ! (cd $D && patch -p1 -s --no-backup-if-mismatch < "$P"); then echo "PATCH DOES NOT APPLY"; rm -rf $D; exit 2; fi
for prop in "$@"; do
  (cd /verif && GOVC_REPO=$D ./check $prop quick 2>&1 | cut -c1-330)
done
rm -rf $D
