#!/bin/bash
# usage: seedconfirm.sh <id> [name]  -- confirms a seeded change in its scratch worktree /tmp/seed/<id> and archives it under /verif/seeded/<name>
ID=$1; NAME=${2:-$1}; W=/tmp/seed/$ID; S=$W/SEEDED
export PATH=/root/go/pkg/mod/golang.org/toolchain@v0.0.1-go1.24.0.linux-amd64/bin:$PATH GOTOOLCHAIN=local GOFLAGS=-mod=mod GOPROXY=off GOSUMDB=off
cd $W || exit 2
PKGDIR=$(head -1 $S/zz_seeded_demo_test.go | sed 's/.*package dir: *//; s/ *$//')
PKGDIR=${PKGDIR#./}
git checkout -q -- . ; git clean -fdq -- internal pkg 2>/dev/null; git apply $S/patch.diff || { echo "RESULT $ID patch-does-not-apply"; exit 1; }
cp $S/zz_seeded_demo_test.go $PKGDIR/zz_seeded_demo_test.go
go test -vet=off -count=1 -run 'Seeded' ./$PKGDIR > $S/confirm_with.log 2>&1; WITH=$?
git apply -R $S/patch.diff; go test -vet=off -count=1 -run 'Seeded' ./$PKGDIR > $S/confirm_without.log 2>&1; WITHOUT=$?; git apply $S/patch.diff
mv $PKGDIR/zz_seeded_demo_test.go /tmp/seed/$ID.demo.tmp
mv $S /tmp/seed/$ID.SEEDED.tmp
go test -vet=off -count=1 ./... > /tmp/seed/$ID.SEEDED.tmp/confirm_suite.log 2>&1; SUITE=$?
mv /tmp/seed/$ID.SEEDED.tmp $S
mv /tmp/seed/$ID.demo.tmp $PKGDIR/zz_seeded_demo_test.go
echo "RESULT $ID demo_with_change_exit=$WITH demo_without_change_exit=$WITHOUT suite_with_change_exit=$SUITE"
if [ $WITH -ne 0 ] && [ $WITHOUT -eq 0 ] && [ $SUITE -eq 0 ]; then
  mkdir -p /verif/seeded/$NAME && cp $S/patch.diff $S/zz_seeded_demo_test.go /verif/seeded/$NAME/ && cp $S/meta.json /verif/seeded/$NAME/meta.agent.json
  echo "CONFIRMED $ID -> /verif/seeded/$NAME"
else
  echo "NOT-CONFIRMED $ID"
fi
