#!/bin/sh
# Builds govc from files on disk only (x/tools v0.29.0 is vendored under govc/vendor).
cd "$(dirname "$0")" || exit 2
TC=/root/go/pkg/mod/golang.org/toolchain@v0.0.1-go1.24.0.linux-amd64/bin
export PATH="$TC:$PATH" GOTOOLCHAIN=local GOPROXY=off GOSUMDB=off GOFLAGS=-mod=vendor
mkdir -p bin out evidence
(cd govc && go build -o ../bin/govc .) || exit 1
for s in z3 z3-new cvc5; do command -v $s >/dev/null || { echo "missing solver $s" >&2; exit 1; }; done
echo "govc built"
