#!/usr/bin/env python3
"""Mutation sweep over the functions under contract (development aid, not a registered check).

For every verified function it derives small syntactic mutants of the function's own lines (negated conditions,
boundary/relational swaps, && <-> ||, deleted simple statements, flipped boolean returns), verifies the function (and
its closures) with the mutated file laid over /repo (GOVC_OVERLAY: nothing is written to /repo) and records whether
some obligation of that function fails.  Survivors are listed for triage: a survivor is either an equivalent /
property-irrelevant change or a hole in the function's contract.

usage: sweep.py [-j N] [-o out.tsv] [unit-substring ...]
"""
import os, re, subprocess, sys, tempfile, concurrent.futures as cf, time

V = os.path.dirname(os.path.abspath(__file__))
ENV = dict(os.environ, PATH='/root/go/pkg/mod/golang.org/toolchain@v0.0.1-go1.24.0.linux-amd64/bin:' + os.environ['PATH'],
           GOTOOLCHAIN='local', GOPROXY='off', GOSUMDB='off', GOFLAGS='-mod=mod')
LOG = re.compile(r'\b(Debug|Info|Warn|Error|InfoWithEndpoint|WarnWithEndpoint|ErrorWithEndpoint|InfoWithCount|InfoHealthy|InfoWithStatus|Printf|Println)\(')
REL = [(' == ', ' != '), (' != ', ' == '), (' < ', ' <= '), (' <= ', ' < '), (' > ', ' >= '), (' >= ', ' > '), (' && ', ' || '), (' || ', ' && ')]


def mutants(lines, a, b):
    """yield (lineno, operator, new_line) for lines a+1 .. b-1 (1-based, the body without the signature)"""
    for i in range(a, b - 1):  # index i <-> line i+1
        l = lines[i]
        s = l.strip()
        if not s or s.startswith('//') or LOG.search(s):
            continue
        code = s.split(' //')[0].rstrip()
        m = re.match(r'^(\s*(?:\} else )?if )(.*) \{$', l.rstrip())
        if m and '//' not in l:
            pre, cond = m.group(1), m.group(2)
            if ';' in cond:
                init, c = cond.rsplit(';', 1)
                yield i + 1, 'negate-if', '%s%s; !(%s) {' % (pre, init, c.strip())
            else:
                yield i + 1, 'negate-if', '%s!(%s) {' % (pre, cond)
        for x, y in REL:
            k = l.find(x)
            if k >= 0 and '"' not in l[:k].replace('\\"', ''):
                if m and x in (' == ', ' != ') and l.count(' && ') + l.count(' || ') == 0:
                    continue  # same as negate-if
                yield i + 1, 'swap' + x.strip() + '→' + y.strip(), l[:k] + y + l[k + len(x):]
        if code in ('return true', 'return false'):
            yield i + 1, 'flip-return', l.replace('true', 'FALSE').replace('false', 'true').replace('FALSE', 'false')
        if code == 'continue':
            yield i + 1, 'continue→break', l.replace('continue', 'break')
        if re.match(r'^[\w\.\[\]\*\(\)"]+(\+\+|--)$', code) or (
                re.match(r'^[\w\.\[\]\*"]+ (=|\+=|-=|\|=) .*[^,{(]$', code)) or (
                re.match(r'^[\w\.]+\(.*\)$', code) and not code.startswith(('return', 'defer', 'go ', 'panic'))):
            yield i + 1, 'delete-stmt', ''


BIN = V + '/bin/govc'


def run_one(job):
    unit, path, ln, op, new, orig_lines, tmo = job
    lines = list(orig_lines)
    lines[ln - 1] = new
    fd, tmp = tempfile.mkstemp(suffix='.go', dir='/dev/shm' if os.path.isdir('/dev/shm') else None)
    os.write(fd, ('\n'.join(lines) + '\n').encode())
    os.close(fd)
    t0 = time.time()
    try:
        p = subprocess.run([BIN, 'dev', '=' + unit], env=dict(ENV, GOVC_OVERLAY=path + '=' + tmp), cwd=V,
                           capture_output=True, text=True, errors='replace', timeout=tmo)
        out = p.stdout + p.stderr
    except subprocess.TimeoutExpired:
        out = 'TIMEOUT'
    finally:
        os.unlink(tmp)
    if 'load error' in out or 'does not type-check' in out:
        st, why = 'invalid', ''
    elif out == 'TIMEOUT':
        st, why = 'timeout', ''
    else:
        m = re.search(r'(\d+) obligations, (\d+) failed', out)
        if not m:
            st, why = 'error', out.strip().splitlines()[-1][:200] if out.strip() else ''
        elif int(m.group(2)) > 0:
            f = [x for x in out.splitlines() if x.startswith('FAIL')]
            st, why = 'killed', f[0].split()[1] if f else ''
        else:
            st, why = 'survived', ''
    return unit, path, ln, op, orig_lines[ln - 1].strip(), new.strip(), st, why, time.time() - t0


def main():
    args = sys.argv[1:]
    j, outp = 6, V + '/out/sweep.tsv'
    while args and args[0] in ('-j', '-o'):
        if args[0] == '-j':
            j = int(args[1])
        else:
            outp = args[1]
        args = args[2:]
    global BIN
    import shutil
    BIN = shutil.copy(V + '/bin/govc', tempfile.mkdtemp(prefix='sweep') + '/govc')  # private copy: ./check may rebuild bin/govc meanwhile
    done = set()
    if os.path.exists(outp):
        for l in open(outp):
            p = l.rstrip('\n').split('\t')
            if len(p) >= 9:
                done.add((p[0], p[2], p[3]))
    units = subprocess.run([V + '/bin/govc', 'units'], env=ENV, cwd=V, capture_output=True, text=True).stdout.splitlines()
    jobs = []
    for u in units:
        name, path, a, b, props = u.split('\t')
        if args and not any(x in name for x in args):
            continue
        lines = open(path).read().split('\n')
        for ln, op, new in mutants(lines, int(a), int(b)):
            if new != lines[ln - 1] and (name, str(ln), op) not in done:
                jobs.append((name, path, ln, op, new, lines, 180))
    print('%d mutants over %d functions' % (len(jobs), len({x[0] for x in jobs})), file=sys.stderr)
    os.makedirs(os.path.dirname(outp), exist_ok=True)
    n = {}
    with open(outp, 'a') as f, cf.ThreadPoolExecutor(j) as ex:
        for fut in cf.as_completed([ex.submit(run_one, x) for x in jobs]):
            try:
                r = fut.result()
            except Exception as e:
                print('job failed:', e, file=sys.stderr)
                continue
            n[r[6]] = n.get(r[6], 0) + 1
            f.write('\t'.join(str(x) for x in r[:8]) + '\t%.1f\n' % r[8])
            f.flush()
    print(n, file=sys.stderr)


if __name__ == '__main__':
    main()
