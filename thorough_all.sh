#!/bin/sh
# runs the thorough tier of every claimed property, one after the other (development aid)
cd /verif
for c in C01 C02 C03 C04 C05 C06 C07 C08 C09 C10 C11 C12 C13 C14 C15 C16 C17 C18 C19 C20; do
  ./check $c thorough 2>&1 | grep -a "govc:\|selftest\|SELFTEST-WEAK\|VIOLATION" | cut -c1-220
done
cat out/selftest-C*.txt > mutants/RESULTS.txt 2>/dev/null
